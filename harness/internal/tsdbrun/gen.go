package tsdbrun

import (
	"math"

	"pgregory.net/rapid"

	tm "verifharness/internal/tsdbmodel"
)

// Bias tunes the history generator for a property.
type Bias struct {
	MinSteps, MaxSteps int
	Deletes            int // weight
	Compactions        int
	Reopens            int
	Queries            int
	Rejects            bool // draw the reject-out-of-order option
	ForceOOO           bool // OOO window always > 0
	NoDeletes          bool
	HeadOnly           bool // no compaction / reopen (C02)
	Snapshot           *bool
	MaxSeries          int
	// Churn adds series eviction (stale / selected series compaction), unclean restarts,
	// appends with previously returned refs and fast startup; TagValues makes every value
	// identify its series.
	Churn     int
	TagValues bool
	// Simple: one appender at a time, no staleness markers, only open/add/commit/rollback,
	// db.Compact, head flush and m-mapping (used by the crash check, where restarts are injected).
	Simple bool
	// Prelude (with Simple): that many rounds of "append one sample per series 1600 ms ahead,
	// commit, db.Compact" before the drawn operations, so that the workload starts with several
	// head compactions behind it (the third one writes the first WAL checkpoint).
	Prelude int
}

var baseTimes = []int64{0, -5000, 1_000_000, 1 << 40, -(1 << 40), 999_997, -1_000_003}

// GenConfig draws a configuration.
func GenConfig(t *rapid.T, b Bias) Config {
	maxS := b.MaxSeries
	if maxS == 0 {
		maxS = 5
	}
	c := Config{
		NSeries:         rapid.IntRange(2, maxS).Draw(t, "nseries"),
		ChunkRange:      1000,
		OOOWindow:       rapid.SampledFrom([]int64{0, 0, 300, 2500}).Draw(t, "ooowindow"),
		SamplesPerChunk: rapid.SampledFrom([]int{2, 4, 8, 120}).Draw(t, "samplesperchunk"),
		OOOCapMax:       rapid.SampledFrom([]int64{2, 4, 8, 32}).Draw(t, "ooocap"),
		XOR2:            rapid.Bool().Draw(t, "xor2"),
		STStorage:       rapid.Bool().Draw(t, "ststorage"),
		HistST:          rapid.Bool().Draw(t, "histst"),
		NoIsolation:     rapid.Bool().Draw(t, "noisolation"),
		Overlapping:     rapid.Bool().Draw(t, "overlapping"),
		Snapshot:        rapid.Bool().Draw(t, "snapshot"),
		WALComp:         rapid.IntRange(0, 2).Draw(t, "walcomp"),
		V2:              rapid.Bool().Draw(t, "v2"),
	}
	if c.STStorage {
		c.XOR2 = true // tsdb.Open refuses start-timestamp storage with plain XOR float chunks
	}
	if b.ForceOOO && c.OOOWindow == 0 {
		c.OOOWindow = 300
	}
	if b.Snapshot != nil {
		c.Snapshot = *b.Snapshot
	}
	if b.Churn > 0 {
		c.FastStartup = rapid.Bool().Draw(t, "faststartup")
	}
	return c
}

type genState struct {
	cfg   Config
	m     *tm.Model
	apps  map[int]*tm.Appender
	now   int64
	base  int64
	ops   []Op
	lastV map[int]tm.Val
	// mirror of Run.creator/established (known finding sample-committed-before-series-record):
	// unless allowTaint, no appender appends to a series whose creating appender is still open
	creator     map[int]int
	established map[int]bool
	allowTaint  bool
	avoided     int
	// known finding stale-marker-conversion-reorders-commit: after a float staleness marker for
	// a histogram series, the same appender does not append to that series again (unless allowTaint)
	staleLock map[[2]int]bool
	// known finding delete-hides-later-ooo-append: requested delete ranges per series
	deleted map[int][][2]int64
	tag     bool
	noStale bool
}

func (g *genState) closeAll(t *rapid.T) {
	for _, a := range []int{0, 1, 2} {
		if g.apps[a] != nil {
			k := "commit"
			if rapid.IntRange(0, 4).Draw(t, "closekind") == 0 {
				k = "rollback"
			}
			g.emitClose(k, a)
		}
	}
}

func (g *genState) emitClose(k string, a int) {
	if k == "commit" {
		g.m.Commit(g.apps[a])
	}
	for s, c := range g.creator {
		if c == a {
			g.established[s] = true
			delete(g.creator, s)
		}
	}
	for k := range g.staleLock {
		if k[0] == a {
			delete(g.staleLock, k)
		}
	}
	delete(g.apps, a)
	g.ops = append(g.ops, Op{K: k, A: a})
}

func (g *genState) headMinInOrder() (int64, bool) {
	min, ok := int64(math.MaxInt64), false
	for _, s := range g.m.Series {
		for ts, p := range s.Pts {
			if p.Required && ts >= g.m.Head.MinValid && ts < min && (!s.HasLast || ts <= s.LastT) {
				min, ok = ts, true
			}
		}
	}
	return min, ok
}

func rangeEnd(t, width int64) int64 {
	// end of the aligned window containing t (as the block ranges are aligned)
	r := t - t%width
	if t < 0 && t%width != 0 {
		r -= width
	}
	return r + width
}

func (g *genState) simulateCompact() {
	for i := 0; i < 20; i++ {
		if !g.m.Head.Init {
			return
		}
		min, ok := g.headMinInOrder()
		if !ok || g.m.Head.MaxT-min <= g.cfg.ChunkRange/2*3 {
			return
		}
		g.m.Truncated(rangeEnd(min, g.cfg.ChunkRange))
	}
}

func (g *genState) genValue(t *rapid.T, s int) tm.Val {
	if lv, ok := g.lastV[s]; ok && rapid.IntRange(0, 5).Draw(t, "samevalue") == 0 {
		return lv
	}
	if g.tag {
		// every value identifies the series it was appended to (stale markers cannot)
		var v tm.Val
		switch rapid.IntRange(0, 9).Draw(t, "tvkind") {
		case 0, 1:
			v = tm.Val{Kind: tm.KHist, H: s + 5*rapid.IntRange(0, 1).Draw(t, "thid")}
		case 2:
			v = tm.Val{Kind: tm.KFHist, H: s + 5*rapid.IntRange(0, 1).Draw(t, "thid")}
		case 3:
			v = tm.Val{Kind: tm.KStale}
		default:
			v = tm.Val{Kind: tm.KFloat, F: math.Float64bits(float64(s*1000 + rapid.IntRange(0, 30).Draw(t, "tf")))}
		}
		g.lastV[s] = v
		return v
	}
	var v tm.Val
	switch rapid.IntRange(0, 19).Draw(t, "vkind") {
	case 0, 1, 2:
		v = tm.Val{Kind: tm.KHist, H: rapid.IntRange(0, tm.NumHist-1).Draw(t, "hid")}
	case 3, 4:
		v = tm.Val{Kind: tm.KFHist, H: rapid.IntRange(0, tm.NumHist-1).Draw(t, "hid")}
	case 5, 6:
		v = tm.Val{Kind: tm.KStale}
		if g.noStale {
			v = tm.Val{Kind: tm.KFloat, F: math.Float64bits(float64(rapid.IntRange(51, 60).Draw(t, "fsmall2")))}
		}
	case 7, 8, 9:
		v = tm.Val{Kind: tm.KFloat, F: rapid.SampledFrom([]uint64{0, 0x8000000000000000, 0x7ff8000000000001, 0x7ff0000000000000, 0xfff8000000000001, 0}).Draw(t, "fspecial")}
	default:
		v = tm.Val{Kind: tm.KFloat, F: math.Float64bits(float64(rapid.IntRange(0, 50).Draw(t, "fsmall")))}
	}
	g.lastV[s] = v
	return v
}

func (g *genState) genTime(t *rapid.T, a *tm.Appender, s int) int64 {
	ser := g.m.Series[s]
	var cands []int64
	d := int64(rapid.IntRange(-1, 1).Draw(t, "edge"))
	if ser.HasLast {
		cands = append(cands, ser.LastT+d, ser.LastT+int64(rapid.IntRange(2, 40).Draw(t, "step")))
	}
	if !a.Lazy {
		cands = append(cands, a.W.MinValid+d)
		if a.W.OOO > 0 {
			cands = append(cands, a.W.HeadMaxT-a.W.OOO+d, a.W.HeadMaxT-int64(rapid.IntRange(0, int(a.W.OOO)).Draw(t, "oooback")))
		}
	}
	cands = append(cands,
		g.now+int64(rapid.SampledFrom([]int{1, 7, 100, 500, 1000, 1600}).Draw(t, "fwd")),
		g.now-int64(rapid.IntRange(0, 700).Draw(t, "back")),
		rangeEnd(g.now, g.cfg.ChunkRange)+d,
	)
	ts := rapid.SampledFrom(cands).Draw(t, "tcand")
	// keep the whole history within a bounded span so that db.Compact terminates quickly
	if ts > g.base+12000 {
		ts = g.base + 12000
	}
	if ts < g.base-4000 {
		ts = g.base - 4000
	}
	return ts
}

// GenHistory draws a history.
func GenHistory(t *rapid.T, b Bias) History {
	cfg := GenConfig(t, b)
	g := &genState{cfg: cfg, m: tm.New(cfg.NSeries, cfg.ChunkRange, cfg.OOOWindow), apps: map[int]*tm.Appender{}, lastV: map[int]tm.Val{},
		creator: map[int]int{}, established: map[int]bool{}, staleLock: map[[2]int]bool{}, deleted: map[int][][2]int64{}}
	g.allowTaint = rapid.IntRange(0, 7).Draw(t, "allowtaint") == 0
	g.tag = b.TagValues
	g.noStale = b.Simple
	g.base = rapid.SampledFrom(baseTimes).Draw(t, "base")
	g.now = g.base
	if b.MaxSteps == 0 {
		b.MinSteps, b.MaxSteps = 15, 60
	}
	n := rapid.IntRange(b.MinSteps, b.MaxSteps).Draw(t, "nsteps")
	type wop struct {
		k string
		w int
	}
	table := []wop{{"open", 6}, {"add", 40}, {"commit", 8}, {"rollback", 2}, {"query", b.Queries}}
	if !b.NoDeletes {
		table = append(table, wop{"delete", 3 + b.Deletes})
	}
	if !b.HeadOnly {
		table = append(table, wop{"compact", 2 + b.Compactions}, wop{"flush", 1 + b.Compactions/2}, wop{"compactooo", 1 + b.Compactions/2},
			wop{"cleantomb", 1 + b.Deletes/2}, wop{"mmap", 2}, wop{"reopen", 2 + b.Reopens})
	} else {
		table = append(table, wop{"flush", 1}, wop{"mmap", 1})
	}
	if !b.HeadOnly && !b.NoDeletes {
		table = append(table, wop{"boundarydelete", 1 + b.Deletes/4}, wop{"straddledelete", 1 + b.Deletes/4})
	}
	if b.Simple {
		table = []wop{{"open", 4}, {"add", 40}, {"commit", 10}, {"rollback", 1}, {"compact", 4}, {"flush", 2}, {"mmap", 2}}
		if !b.NoDeletes {
			table = append(table, wop{"delete", 3 + b.Deletes}, wop{"cleantomb", 1}, wop{"compactooo", 1}, wop{"straddledelete", 2})
		}
	}
	if b.Churn > 0 && !b.HeadOnly {
		table = append(table, wop{"evictstale", b.Churn}, wop{"evictsel", b.Churn}, wop{"crashreopen", b.Churn})
	}
	var ks []string
	for _, w := range table {
		for i := 0; i < w.w; i++ {
			ks = append(ks, w.k)
		}
	}
	for i := 0; i < b.Prelude && b.Simple; i++ {
		a := g.m.NewAppender(false)
		g.apps[0] = a
		g.ops = append(g.ops, Op{K: "open", A: 0})
		ts := g.now + 1600
		for s := 0; s < cfg.NSeries && s < 2; s++ {
			v := tm.Val{Kind: tm.KFloat, F: math.Float64bits(float64(100 + i))}
			if !g.established[s] {
				g.creator[s] = 0
			}
			g.m.Append(a, s, ts, v, false)
			g.lastV[s] = v
			g.ops = append(g.ops, Op{K: "add", A: 0, S: s, T: ts, V: v})
		}
		g.now = ts
		g.emitClose("commit", 0)
		g.established, g.creator = map[int]bool{}, map[int]int{}
		g.simulateCompact()
		g.ops = append(g.ops, Op{K: "compact"})
	}
	n += len(g.ops)
	for len(g.ops) < n {
		k := rapid.SampledFrom(ks).Draw(t, "op")
		switch k {
		case "open":
			slot := rapid.IntRange(0, 2).Draw(t, "slot")
			if b.Simple {
				slot = 0
			}
			if g.apps[slot] != nil {
				continue
			}
			rej := b.Rejects && rapid.IntRange(0, 3).Draw(t, "reject") == 0
			g.apps[slot] = g.m.NewAppender(rej)
			g.ops = append(g.ops, Op{K: "open", A: slot, Reject: rej})
		case "add":
			if len(g.apps) == 0 {
				g.apps[0] = g.m.NewAppender(false)
				g.ops = append(g.ops, Op{K: "open", A: 0})
			}
			var slots []int
			for _, s := range []int{0, 1, 2} {
				if g.apps[s] != nil {
					slots = append(slots, s)
				}
			}
			slot := rapid.SampledFrom(slots).Draw(t, "aslot")
			a := g.apps[slot]
			s := rapid.IntRange(0, cfg.NSeries-1).Draw(t, "series")
			if c, ok := g.creator[s]; ok && c != slot && !g.established[s] && !g.allowTaint {
				g.avoided++
				continue
			}
			if g.staleLock[[2]int{slot, s}] && !g.allowTaint {
				g.avoided++
				continue
			}
			if !g.established[s] {
				if _, ok := g.creator[s]; !ok {
					g.creator[s] = slot
				}
			}
			ts := g.genTime(t, a, s)
			if ser := g.m.Series[s]; !g.allowTaint && (!ser.HasLast || ts <= ser.LastT) {
				inDel := false
				for _, dr := range g.deleted[s] {
					if ts >= dr[0] && ts <= dr[1] {
						inDel = true
					}
				}
				if inDel {
					g.avoided++
					continue
				}
			}
			v := g.genValue(t, s)
			if ser := g.m.Series[s]; ser.HasLast && ts == ser.LastT && !ser.LastStale && !g.tag {
				// re-append at the newest timestamp: aim at the duplicate rule (bit-identical value is a
				// no-op, anything else a duplicate error), including values that compare equal but differ
				// in bits (+0/-0) and values that are bit-identical but compare unequal (NaN)
				switch rapid.IntRange(0, 5).Draw(t, "dupclass") {
				case 0, 1:
					v = ser.LastV
				case 2:
					if ser.LastV.Kind == tm.KFloat && (ser.LastV.F == 0 || ser.LastV.F == 0x8000000000000000) {
						v = tm.Val{Kind: tm.KFloat, F: ser.LastV.F ^ 0x8000000000000000}
					}
				}
				g.lastV[s] = v
			}
			if ser := g.m.Series[s]; v.Kind == tm.KStale && (!ser.HasLast || ser.LastKind != tm.KFloat || len(g.apps) > 1) {
				g.staleLock[[2]int{slot, s}] = true
			}
			rej := a.Reject
			if cfg.V2 {
				rej = b.Rejects && rapid.IntRange(0, 5).Draw(t, "areject") == 0
			}
			g.m.Append(a, s, ts, v, rej)
			if ts > g.now {
				g.now = ts
			}
			g.ops = append(g.ops, Op{K: "add", A: slot, S: s, T: ts, V: v, Reject: rej, OldRef: b.Churn > 0 && rapid.IntRange(0, 2).Draw(t, "oldref") == 0})
		case "commit", "rollback":
			var slots []int
			for _, s := range []int{0, 1, 2} {
				if g.apps[s] != nil {
					slots = append(slots, s)
				}
			}
			if len(slots) == 0 {
				continue
			}
			g.emitClose(k, rapid.SampledFrom(slots).Draw(t, "cslot"))
		case "delete":
			g.closeAll(t)
			var mint, maxt int64
			switch rapid.IntRange(0, 8).Draw(t, "delclass") {
			case 0:
				mint, maxt = math.MinInt64, g.now-int64(rapid.IntRange(0, 1500).Draw(t, "dback"))
			case 1:
				mint, maxt = g.now-int64(rapid.IntRange(0, 1500).Draw(t, "dback")), math.MaxInt64
			case 2, 3, 4:
				// ranges ending or starting exactly on a structural boundary: the head's lower bound
				// (= newest block's end), a series' newest sample, a block range boundary
				var bounds []int64
				if g.m.Head.MinValid != math.MinInt64 {
					bounds = append(bounds, g.m.Head.MinValid, g.m.Head.MinValid-1)
				}
				for _, ser := range g.m.Series {
					if ser.HasLast {
						bounds = append(bounds, ser.LastT)
					}
				}
				bounds = append(bounds, rangeEnd(g.now, g.cfg.ChunkRange)-g.cfg.ChunkRange, g.now)
				if min, ok := g.headMinInOrder(); ok {
					// where the next head compaction will cut: a deletion straddling it must survive
					// being split between the new block and the head
					cut := rangeEnd(min, g.cfg.ChunkRange)
					bounds = append(bounds, cut, cut)
				}
				b0 := rapid.SampledFrom(bounds).Draw(t, "dbound")
				if rapid.Bool().Draw(t, "dends") {
					maxt = b0 + int64(rapid.IntRange(-1, 1).Draw(t, "dedge"))
					mint = maxt - int64(rapid.SampledFrom([]int{0, 1, 30, 700, 2500}).Draw(t, "dlen2"))
					if rapid.IntRange(0, 3).Draw(t, "dopen") == 0 {
						mint = math.MinInt64
					}
				} else {
					mint = b0 + int64(rapid.IntRange(-1, 1).Draw(t, "dedge"))
					maxt = mint + int64(rapid.SampledFrom([]int{0, 1, 30, 700, 2500}).Draw(t, "dlen2"))
					if rapid.IntRange(0, 3).Draw(t, "dopen") == 0 {
						maxt = math.MaxInt64
					}
				}
			default:
				mint = g.now - int64(rapid.IntRange(0, 3000).Draw(t, "dfrom"))
				maxt = mint + int64(rapid.SampledFrom([]int{0, 1, 5, 50, 400, 1200}).Draw(t, "dlen"))
			}
			var sel []int
			if rapid.IntRange(0, 2).Draw(t, "delall") > 0 {
				k := rapid.IntRange(1, 2).Draw(t, "nsel")
				seen := map[int]bool{}
				for i := 0; i < k; i++ {
					s := rapid.IntRange(0, cfg.NSeries-1).Draw(t, "dsel")
					if !seen[s] {
						seen[s] = true
						sel = append(sel, s)
					}
				}
			}
			all := sel
			if all == nil {
				for i := range g.m.Series {
					all = append(all, i)
				}
			}
			// known finding delete-misses-ooo-head-samples: mostly move out-of-order head data into
			// blocks before a delete that would cover it, so that the search continues behind it
			hit := false
			wasOOOInRange := false
			for _, si := range all {
				for ts, p := range g.m.Series[si].Pts {
					if p.OOOHead && ts >= mint && ts <= maxt {
						hit = true
					}
					if p.WasOOO && !p.OOOHead && ts >= mint && ts <= maxt && !g.allowTaint {
						// compacted out-of-order data can still be reloaded into the head: keep such
						// points out of delete ranges by shrinking the range below/above them
						wasOOOInRange = true
					}
				}
			}
			if wasOOOInRange {
				g.avoided++
				continue
			}
			if hit && !g.allowTaint {
				g.m.OOOCompacted()
				g.ops = append(g.ops, Op{K: "compactooo"})
				g.avoided++
			}
			for _, si := range all {
				g.deleted[si] = append(g.deleted[si], [2]int64{mint, maxt})
			}
			g.m.Delete(all, mint, maxt)
			g.ops = append(g.ops, Op{K: "delete", Mint: mint, Maxt: maxt, Sel: sel})
			if follow := rapid.IntRange(0, 5).Draw(t, "delfollow"); !b.HeadOnly && follow <= 1 {
				// a deletion directly followed by a restart, half of the time with a head compaction
				// in between (in the crash check: a compaction to be killed in): the tombstone has to
				// survive both
				g.established, g.creator = map[int]bool{}, map[int]int{}
				if follow == 0 || b.Simple {
					g.simulateCompact()
					g.ops = append(g.ops, Op{K: "compact"})
				}
				if !b.Simple {
					g.m.Restarted(false, math.MinInt64, g.m.Head.MinValid)
					g.ops = append(g.ops, Op{K: "reopen"})
				}
			}
		case "boundarydelete":
			// aimed scenario: a series whose newest sample sits exactly on the head's lower bound
			// (the end of the newest block), a deletion that covers it, then a restart
			if !g.m.Head.Init || g.m.Head.MinValid == math.MinInt64 || g.m.Head.MinValid < g.base-4000 {
				continue
			}
			g.closeAll(t)
			s := rapid.IntRange(0, cfg.NSeries-1).Draw(t, "bdseries")
			ser := g.m.Series[s]
			ts := g.m.Head.MinValid
			if ser.HasLast && ser.LastT >= ts {
				continue
			}
			a := g.m.NewAppender(false)
			g.apps[0] = a
			g.ops = append(g.ops, Op{K: "open", A: 0})
			if !g.established[s] {
				g.creator[s] = 0
			}
			v := tm.Val{Kind: tm.KFloat, F: math.Float64bits(float64(rapid.IntRange(61, 70).Draw(t, "bdval")))}
			g.m.Append(a, s, ts, v, false)
			g.lastV[s] = v
			if ts > g.now {
				g.now = ts
			}
			g.ops = append(g.ops, Op{K: "add", A: 0, S: s, T: ts, V: v})
			g.emitClose("commit", 0)
			mint := ts - int64(rapid.SampledFrom([]int{0, 1, 10, 400}).Draw(t, "bdback"))
			maxt := ts + int64(rapid.SampledFrom([]int{0, 0, 1, 50, 2000}).Draw(t, "bdfwd"))
			g.deleted[s] = append(g.deleted[s], [2]int64{mint, maxt})
			g.m.Delete([]int{s}, mint, maxt)
			g.ops = append(g.ops, Op{K: "delete", Mint: mint, Maxt: maxt, Sel: []int{s}})
			g.established, g.creator = map[int]bool{}, map[int]int{}
			g.m.Restarted(false, math.MinInt64, g.m.Head.MinValid)
			g.ops = append(g.ops, Op{K: "reopen"})
		case "straddledelete":
			// aimed scenario: a deletion that straddles the point where the next head compaction cuts,
			// with a deleted sample above the cut; then the compaction (and, outside the crash check,
			// a restart): the part of the deletion above the new block has to survive
			min, ok := g.headMinInOrder()
			if !ok || !g.m.Head.Init {
				continue
			}
			cut := rangeEnd(min, g.cfg.ChunkRange)
			g.closeAll(t)
			s := rapid.IntRange(0, cfg.NSeries-1).Draw(t, "sdseries")
			ser := g.m.Series[s]
			t2 := cut + int64(rapid.SampledFrom([]int{0, 0, 1, 37}).Draw(t, "sdabove"))
			if ser.HasLast && ser.LastT >= t2 {
				t2 = ser.LastT + 1
			}
			if t2 < g.m.Head.MinValid {
				t2 = g.m.Head.MinValid
			}
			t3 := t2 + 1
			if far := min + g.cfg.ChunkRange/2*3 + 1; far > t3 {
				t3 = far
			}
			if t3 > g.base+12000 {
				continue
			}
			a := g.m.NewAppender(false)
			g.apps[0] = a
			g.ops = append(g.ops, Op{K: "open", A: 0})
			if !g.established[s] {
				g.creator[s] = 0
			}
			for i, ts := range []int64{t2, t3} {
				v := tm.Val{Kind: tm.KFloat, F: math.Float64bits(float64(71 + i))}
				g.m.Append(a, s, ts, v, false)
				g.lastV[s] = v
				g.ops = append(g.ops, Op{K: "add", A: 0, S: s, T: ts, V: v})
			}
			if t3 > g.now {
				g.now = t3
			}
			g.emitClose("commit", 0)
			mint := cut - int64(rapid.SampledFrom([]int{1, 50, 400}).Draw(t, "sdback"))
			maxt := t2 + int64(rapid.SampledFrom([]int{0, 5, 100}).Draw(t, "sdfwd"))
			g.deleted[s] = append(g.deleted[s], [2]int64{mint, maxt})
			g.m.Delete([]int{s}, mint, maxt)
			g.ops = append(g.ops, Op{K: "delete", Mint: mint, Maxt: maxt, Sel: []int{s}})
			g.established, g.creator = map[int]bool{}, map[int]int{}
			g.simulateCompact()
			g.ops = append(g.ops, Op{K: "compact"})
			if !b.Simple {
				g.m.Restarted(false, math.MinInt64, g.m.Head.MinValid)
				g.ops = append(g.ops, Op{K: "reopen"})
			}
		case "compact":
			g.closeAll(t)
			g.established, g.creator = map[int]bool{}, map[int]int{}
			g.simulateCompact()
			g.ops = append(g.ops, Op{K: "compact"})
		case "flush":
			g.closeAll(t)
			g.established, g.creator = map[int]bool{}, map[int]int{}
			if g.m.Head.Init {
				g.m.Truncated(g.m.Head.MaxT + 1)
			}
			g.ops = append(g.ops, Op{K: "flush"})
		case "compactooo", "cleantomb", "mmap":
			if k != "mmap" {
				g.closeAll(t)
			}
			if k == "compactooo" {
				g.m.OOOCompacted()
				g.established, g.creator = map[int]bool{}, map[int]int{}
			}
			g.ops = append(g.ops, Op{K: k})
		case "evictstale", "evictsel":
			g.closeAll(t)
			g.established, g.creator = map[int]bool{}, map[int]int{}
			var sel []int
			if k == "evictsel" {
				n := rapid.IntRange(1, 2).Draw(t, "nevict")
				for i := 0; i < n; i++ {
					sel = append(sel, rapid.IntRange(0, cfg.NSeries-1).Draw(t, "evictsel"))
				}
			}
			for i, ser := range g.m.Series {
				evict := false
				if k == "evictstale" {
					evict = ser.HasLast && ser.LastStale
				} else {
					for _, x := range sel {
						if x == i {
							evict = true
						}
					}
				}
				if evict {
					ser.HasLast = false
				}
			}
			g.ops = append(g.ops, Op{K: k, Sel: sel})
		case "crashreopen":
			g.closeAll(t)
			g.established, g.creator = map[int]bool{}, map[int]int{}
			g.m.Restarted(false, math.MinInt64, g.m.Head.MinValid)
			g.ops = append(g.ops, Op{K: "crashreopen"})
		case "reopen":
			g.closeAll(t)
			g.established, g.creator = map[int]bool{}, map[int]int{}
			g.m.Restarted(false, math.MinInt64, g.m.Head.MinValid)
			g.ops = append(g.ops, Op{K: "reopen"})
		case "query":
			mint := g.now - int64(rapid.IntRange(0, 3000).Draw(t, "qfrom"))
			maxt := mint + int64(rapid.IntRange(0, 2500).Draw(t, "qlen"))
			g.ops = append(g.ops, Op{K: "query", Mint: mint, Maxt: maxt})
		}
	}
	g.closeAll(t)
	return History{Cfg: cfg, Ops: g.ops}
}
