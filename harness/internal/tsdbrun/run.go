// Package tsdbrun executes generated histories against a real tsdb.DB and keeps the
// reference model (tsdbmodel) in step. It is shared by the TSDB-history properties
// (C01 C02 C20 C22 C23 C52 C53).
package tsdbrun

import (
	"context"
	"errors"
	"fmt"
	"math"
	"os"
	"os/exec"
	"path/filepath"
	"sort"
	"strconv"
	"strings"
	"time"

	"github.com/prometheus/client_golang/prometheus"
	"github.com/prometheus/common/promslog"

	"github.com/prometheus/prometheus/model/histogram"
	"github.com/prometheus/prometheus/model/labels"
	"github.com/prometheus/prometheus/storage"
	"github.com/prometheus/prometheus/tsdb"
	"github.com/prometheus/prometheus/tsdb/chunkenc"
	"github.com/prometheus/prometheus/util/compression"

	"verifharness/internal/ev"
	"verifharness/internal/gen"
	tm "verifharness/internal/tsdbmodel"
)

// Config is the per-case database configuration.
type Config struct {
	NSeries         int
	ChunkRange      int64 // MinBlockDuration
	OOOWindow       int64
	SamplesPerChunk int
	OOOCapMax       int64
	XOR2            bool
	STStorage       bool
	HistST          bool
	NoIsolation     bool
	Overlapping     bool
	Snapshot        bool
	WALComp         int // 0 none 1 snappy 2 zstd
	V2              bool
	FastStartup     bool
	Exemplars       bool
}

// Op is one step of a history.
type Op struct {
	K      string // open add commit rollback delete compact flush compactooo cleantomb mmap reopen query
	A      int    `json:",omitempty"`
	S      int    `json:",omitempty"`
	T      int64  `json:",omitempty"`
	V      tm.Val `json:",omitempty"`
	Reject bool   `json:",omitempty"`
	Mint   int64  `json:",omitempty"`
	Maxt   int64  `json:",omitempty"`
	Sel    []int  `json:",omitempty"` // series selected by a delete / query / eviction (nil = all)
	OldRef bool   `json:",omitempty"` // append with the ref last returned for this label set (possibly outdated)
}

// History is a full case.
type History struct {
	Cfg Config
	Ops []Op
}

// SeriesLabels is the label set of model series i.
func SeriesLabels(i int) labels.Labels {
	return labels.FromStrings("__name__", "m", "g", strconv.Itoa(i%2), "s", strconv.Itoa(i))
}

func seriesIndex(ls labels.Labels) int {
	i, err := strconv.Atoi(ls.Get("s"))
	if err != nil {
		return -1
	}
	return i
}

// Matchers selecting the given series (nil = all).
func Matchers(sel []int) []*labels.Matcher {
	if sel == nil {
		return []*labels.Matcher{labels.MustNewMatcher(labels.MatchEqual, "__name__", "m")}
	}
	parts := make([]string, len(sel))
	for i, s := range sel {
		parts[i] = strconv.Itoa(s)
	}
	return []*labels.Matcher{labels.MustNewMatcher(labels.MatchRegexp, "s", strings.Join(parts, "|"))}
}

type appState struct {
	v1    storage.Appender
	v2    storage.AppenderV2
	model *tm.Appender
	refs  map[int]storage.SeriesRef
}

// Run is a live execution.
type Run struct {
	Cfg   Config
	Dir   string
	DB    *tsdb.DB
	Reg   *prometheus.Registry
	M     *tm.Model
	Apps  map[int]*appState
	Rec   *ev.Rec
	Trace []string
	// Hooks
	AfterStep func(r *Run, op Op) error
	// Flags describing what the history exercised (for non-triviality rules).
	Did map[string]int
	// Lenient switches off append error-class checking (C01 does not own admission).
	CheckAdmission bool
	// AttributionOnly (C22): the model only records, per series, every (t, value) the
	// implementation accepted; queries are checked for soundness of attribution (every
	// returned sample was appended to that label set at that timestamp), not for completeness.
	AttributionOnly bool
	// SoundOnly makes Compare check only that returned samples exist in the model (no completeness).
	SoundOnly bool
	// failSeries is the series of the last Compare failure; commitSigs maps series to a
	// known-finding signature whose trigger pattern occurred in the last commit.
	failSeries int
	commitSigs map[int]string
	// Known finding "sample-committed-before-series-record": creator[s] is the open appender
	// that created series s in the head, established[s] is set once that appender has closed
	// (its series record is in the WAL). tainted[s]: another appender committed samples for s
	// before the creator closed; taintedReopened[s]: ... and the database was reopened since.
	// Known finding "delete-misses-ooo-head-samples": (series,t) pairs that were inside a
	// delete while stored in the out-of-order head.
	oooDeleteSurvivors map[int]map[int64]bool
	// Known finding "delete-hides-later-ooo-append": requested delete ranges per series and the
	// (series,t) pairs appended afterwards inside such a range at or below the series' newest sample.
	// Known finding "wbl-sample-orphaned-by-checkpoint": per series a stage counter:
	// 1 the series was re-created in the head (new ref) after all its head data had been
	// flushed, 2 reopened since (old and new series record both replayed, refs merged),
	// 3 head compaction (WAL checkpoint) since, 4 reopened again.
	// Known finding "head-delete-lost-after-empty-compaction": (series,t) -> stage; 1 deleted while
	// stored in-order in the head, 2 head compaction since, 3 reopened since.
	// Known finding "ooo-block-merged-raises-restart-bound": ULIDs of blocks that carry the
	// out-of-order hint or descend from one; riskBound is the largest MaxTime of a block without
	// the hint that descends from an out-of-order block.
	oooULIDs    map[string]bool
	seenULIDs   map[string]bool // regular (not out-of-order) blocks observed so far
	riskBound   int64
	headDeleted map[int]map[int64]int
	// Known finding "block-delete-lost-after-tombstone-cleanup-and-restart": (series,t) -> stage;
	// 1 deleted while stored in a persisted block (below the head's lower bound), 2 tombstones
	// cleaned or blocks compacted since (a block whose samples are all deleted is removed, and
	// with it the bound that keeps WAL replay from re-reading those samples), 3 reopened since.
	blockDeleted map[int]map[int64]int
	// staleReordered: series for which a commit reordered a converted staleness marker behind
	// later samples (known finding stale-marker-conversion-reorders-commit); the WAL holds the
	// records in the original order, so the divergence can also surface at a later restart.
	staleReordered map[int]bool
	// Known finding "snapshot-restart-reissues-series-ref": createdThisSession lists series that
	// got a ref since the last open; ghostAtReopen is set when, with snapshot-on-shutdown, the
	// database was reopened while such a series had no data in the head (it is in neither the
	// snapshot nor, after the snapshot's WAL offset, the replayed WAL, so its ref number is free
	// again); SnapRefRisk is set when a series is created after that.
	// lastRef is the ref most recently returned for each series' label set, kept across the
	// appenders of one DB instance as a scrape cache would and forgotten at a restart (refs are
	// in-memory ids of one instance; a restarted head may hand the number to another series).
	lastRef            map[int]storage.SeriesRef
	createdThisSession map[int]bool
	ghostAtReopen      bool
	SnapRefRisk        bool
	everCreated        map[int]bool
	dupStage           map[int]int
	deletedRanges      map[int][][2]int64
	hiddenCands        map[int]map[int64]bool
	failMissing        bool
	failT              int64
	failExtra          bool
	creator            map[int]int
	established        map[int]bool
	tainted            map[int]bool
	taintedReopened    map[int]bool
}

// SigDeleteOOO names the known finding about deletes not reaching the out-of-order head.
const SigDeleteOOO = "delete-misses-ooo-head-samples"

// SigDeleteHidesLater names the known finding about head tombstones hiding samples appended later.
const SigDeleteHidesLater = "delete-hides-later-ooo-append"

// SigHeadDeleteLost names the known finding about head tombstones dropped by a head compaction.
const SigHeadDeleteLost = "head-delete-lost-after-compaction-and-restart"

// SigBlockDeleteLost names the known finding about samples deleted in a block that WAL replay brings back.
const SigBlockDeleteLost = "block-delete-lost-after-tombstone-cleanup-and-restart"

// SigDupRecordDropsOOO names the known finding about a duplicate series record wiping m-mapped out-of-order chunks.
const SigDupRecordDropsOOO = "duplicate-series-record-drops-ooo-mmapped-chunks"

// SigSnapRef names the known finding about a series ref re-issued after a snapshot restart.
const SigSnapRef = "snapshot-restart-reissues-series-ref"

// SigMixedBound names the known finding about merged out-of-order blocks raising the restart bound.
const SigMixedBound = "ooo-block-merged-raises-restart-bound"

// SigWBLOrphan names the known finding about out-of-order samples of a re-created series.
const SigWBLOrphan = "wbl-sample-orphaned-by-checkpoint"

// SigSeriesRecordOrder names the known finding.
const SigSeriesRecordOrder = "sample-committed-before-series-record"

func (r *Run) noteAdd(slot, s int, t int64, w tm.Window) {
	if r.established[s] {
		return
	}
	if w.OOO == 0 && t < w.MinValid {
		return // rejected before the series is looked up or created
	}
	if _, ok := r.creator[s]; !ok {
		r.creator[s] = slot
	}
}

func (r *Run) noteClose(slot int, committed []tm.Pending) {
	for _, p := range committed {
		if c, ok := r.creator[p.S]; ok && c != slot && !r.established[p.S] {
			r.tainted[p.S] = true
			r.Did["taint"]++
		}
	}
	for s, c := range r.creator {
		if c == slot {
			r.established[s] = true
			delete(r.creator, s)
		}
	}
}

// noteHeadDeleted advances the stages of the finding head-delete-lost-after-compaction-and-restart.
// 1 -> 2 (head compaction): only for samples the truncation removed from the head (t below the
// head's new lower bound) - that is when their tombstone is truncated with them; a deleted sample
// that stays in the head keeps its tombstone. 2 -> 3 (restart, call after Model.Restarted): only if
// the restart lowered the bound to or below t (no block bounds the range), so that WAL replay can
// bring the sample back; otherwise the entry is dropped.
func (r *Run) noteHeadDeleted(from, to int) {
	lower := r.M.Head.MinValid
	if from == 1 && r.DB != nil {
		// a compaction of an all-deleted range writes no block: only the implementation's head
		// tells that the range was truncated
		if hm := r.DB.Head().MinTime(); hm != math.MaxInt64 && hm > lower {
			lower = hm
		}
	}
	for _, m := range r.headDeleted {
		for t, st := range m {
			if st != from {
				continue
			}
			switch {
			case from == 1 && t >= lower:
				// still in the head
			case from == 2 && t < r.M.Head.MinValid:
				delete(m, t)
			default:
				m[t] = to
			}
		}
	}
	if from == 2 && to == 3 { // restart
		for _, m := range r.blockDeleted {
			for t, st := range m {
				if st == 2 && t >= r.M.Head.MinValid {
					m[t] = 3 // the block bound that kept WAL replay away from t is gone
				}
			}
		}
	}
}

func (r *Run) noteBlockDeleted(from, to int) {
	for _, m := range r.blockDeleted {
		for t, st := range m {
			if st == from {
				m[t] = to
			}
		}
	}
}

// KnownTriggerSeen reports whether the trigger pattern of a known finding that makes WAL
// replay diverge (samples logged before their series record, or a series re-created under
// a second ref) occurred and the database was reopened since.
func (r *Run) KnownTriggerSeen() bool {
	if len(r.taintedReopened) > 0 {
		return true
	}
	for _, st := range r.dupStage {
		if st >= 2 {
			return true
		}
	}
	return false
}

// AnyKnownTrigger reports whether the history contains the trigger pattern of any known
// finding detected by this runner (used by checks that need an exact model afterwards).
func (r *Run) AnyKnownTrigger() bool {
	if len(r.tainted) > 0 || len(r.oooDeleteSurvivors) > 0 || len(r.hiddenCands) > 0 || len(r.headDeleted) > 0 || len(r.blockDeleted) > 0 || r.riskBound != math.MinInt64 || r.SnapRefRisk || r.Did["stale-reorder"] > 0 {
		return true
	}
	for _, st := range r.dupStage {
		if st >= 1 {
			return true
		}
	}
	return false
}

// ReplayDivergenceTrigger reports whether the history contains the trigger of a listed finding that
// makes a WAL replay (with or without a chunk snapshot) return other data than the live head did:
// samples logged before their series record, a re-created series, a converted staleness marker
// reordered at commit, a merged out-of-order block, a re-issued ref, or a deletion whose samples
// were truncated or cleaned away afterwards. A plain deletion is not such a trigger.
func (r *Run) ReplayDivergenceTrigger() bool {
	if len(r.tainted) > 0 || r.riskBound != math.MinInt64 || r.SnapRefRisk || r.Did["stale-reorder"] > 0 || len(r.staleReordered) > 0 {
		return true
	}
	for _, st := range r.dupStage {
		if st >= 1 {
			return true
		}
	}
	for _, m := range r.headDeleted {
		for _, st := range m {
			if st >= 2 {
				return true
			}
		}
	}
	for _, m := range r.blockDeleted {
		for _, st := range m {
			if st >= 2 {
				return true
			}
		}
	}
	return false
}

// SoundnessTrigger reports whether a known finding that can make the implementation return
// a sample the model does not contain (without any delete) was triggered.
func (r *Run) SoundnessTrigger() bool { return len(r.tainted) > 0 || r.Did["stale-reorder"] > 0 }

// OOODeleteSeen reports whether a delete covered a sample that was stored through the
// out-of-order path (trigger of the known finding delete-misses-ooo-head-samples).
func (r *Run) OOODeleteSeen() bool { return len(r.oooDeleteSurvivors) > 0 }

// DeleteShadowSeen reports whether a sample was appended into a previously deleted range of its
// series at or below the series' newest sample (trigger of delete-hides-later-ooo-append).
func (r *Run) DeleteShadowSeen() bool { return len(r.hiddenCands) > 0 }

func (r *Run) hasOOOHead(si int) bool {
	for _, p := range r.M.Series[si].Pts {
		if p.OOOHead {
			return true
		}
	}
	return false
}

func (r *Run) noteCheckpoint() {
	r.noteHeadDeleted(1, 2)
	for s, st := range r.dupStage {
		if st == 2 {
			r.dupStage[s] = 3
		}
	}
}

func (r *Run) noteGC() {
	// series without data may have been garbage-collected: a later append re-creates them
	if len(r.Apps) == 0 {
		r.established = map[int]bool{}
		r.creator = map[int]int{}
	}
}

// Options builds tsdb.Options from the config.
func (c Config) Options() *tsdb.Options {
	o := tsdb.DefaultOptions()
	o.MinBlockDuration = c.ChunkRange
	o.MaxBlockDuration = c.ChunkRange * 8
	o.RetentionDuration = 0
	o.WALSegmentSize = 32 * 1024
	o.SamplesPerChunk = c.SamplesPerChunk
	o.OutOfOrderTimeWindow = c.OOOWindow
	o.OutOfOrderCapMax = c.OOOCapMax
	o.IsolationDisabled = c.NoIsolation
	o.EnableOverlappingCompaction = c.Overlapping
	o.EnableMemorySnapshotOnShutdown = c.Snapshot
	o.EnableSTStorage = c.STStorage
	o.EnableHistogramSTEncoding = c.HistST
	o.EnableFastStartup = c.FastStartup
	o.HeadChunksWriteQueueSize = 0
	o.BlockReloadInterval = 24 * time.Hour // no background reloads: the harness owns every reload (0 is clamped to one second)
	if c.XOR2 {
		o.FloatChunkEncoding = chunkenc.EncXOR2
	}
	switch c.WALComp {
	case 1:
		o.WALCompression = compression.Snappy
	case 2:
		o.WALCompression = compression.Zstd
	}
	if c.Exemplars {
		o.EnableExemplarStorage = true
		o.MaxExemplars = 50
	}
	return o
}

// Start opens a fresh database in a new temporary directory.
func Start(h History, rec *ev.Rec) (*Run, error) {
	dir, err := os.MkdirTemp("", "tsdbrun")
	if err != nil {
		return nil, err
	}
	return StartDir(h, rec, dir)
}

// RiskBound exposes the bound of the known finding ooo-block-merged-raises-restart-bound.
func (r *Run) RiskBound() int64 { return r.riskBound }

// StartDir opens a database in the given (empty or existing) directory.
func StartDir(h History, rec *ev.Rec, dir string) (*Run, error) {
	r := &Run{Cfg: h.Cfg, Dir: dir, Rec: rec, Apps: map[int]*appState{}, Did: map[string]int{}, CheckAdmission: true,
		oooDeleteSurvivors: map[int]map[int64]bool{}, deletedRanges: map[int][][2]int64{}, hiddenCands: map[int]map[int64]bool{}, oooULIDs: map[string]bool{}, riskBound: math.MinInt64, lastRef: map[int]storage.SeriesRef{}, createdThisSession: map[int]bool{}, headDeleted: map[int]map[int64]int{}, blockDeleted: map[int]map[int64]int{}, staleReordered: map[int]bool{}, everCreated: map[int]bool{}, dupStage: map[int]int{}, creator: map[int]int{}, established: map[int]bool{}, tainted: map[int]bool{}, taintedReopened: map[int]bool{}}
	r.M = tm.New(h.Cfg.NSeries, h.Cfg.ChunkRange, h.Cfg.OOOWindow)
	if err := r.open(); err != nil {
		os.RemoveAll(dir)
		return nil, err
	}
	return r, nil
}

func (r *Run) open() error {
	r.Reg = prometheus.NewRegistry()
	db, err := tsdb.Open(r.Dir, promslog.NewNopLogger(), r.Reg, r.Cfg.Options(), nil)
	if err != nil {
		return ev.Failf("tsdb.Open failed: %v\nhistory so far:\n%s", err, r.TraceString())
	}
	db.DisableCompactions()
	r.DB = db
	return nil
}

// Finish closes and removes everything.
func (r *Run) Finish() {
	for _, a := range r.Apps {
		if a.v1 != nil {
			_ = a.v1.Rollback()
		}
		if a.v2 != nil {
			_ = a.v2.Rollback()
		}
	}
	if r.DB != nil {
		_ = r.DB.Close()
	}
	os.RemoveAll(r.Dir)
}

func (r *Run) TraceString() string {
	t := r.Trace
	if len(t) > 80 {
		t = t[len(t)-80:]
	}
	return "  " + strings.Join(t, "\n  ")
}

func (r *Run) sfailf(series int, format string, a ...any) error {
	r.failSeries = series
	return r.failf(format, a...)
}

func (r *Run) failf(format string, a ...any) error {
	return ev.Failf("%s\nconfig: %+v\nhistory:\n%s", fmt.Sprintf(format, a...), r.Cfg, r.TraceString())
}

func errClass(err error) string {
	switch {
	case err == nil:
		return "nil"
	case errors.Is(err, storage.ErrOutOfBounds):
		return "ErrOutOfBounds"
	case errors.Is(err, storage.ErrOutOfOrderSample):
		return "ErrOutOfOrderSample"
	case errors.Is(err, storage.ErrTooOldSample):
		return "ErrTooOldSample"
	case errors.Is(err, storage.ErrDuplicateSampleForTimestamp):
		return "ErrDuplicateSampleForTimestamp"
	}
	return "other: " + err.Error()
}

func outcomeMatches(o tm.Outcome, cls string) bool {
	switch o {
	case tm.InOrder, tm.NoOpDup, tm.OOO:
		return cls == "nil"
	case tm.ErrOOB:
		return cls == "ErrOutOfBounds"
	case tm.ErrOOO:
		return cls == "ErrOutOfOrderSample"
	case tm.ErrTooOld:
		return cls == "ErrTooOldSample"
	case tm.ErrDup:
		return cls == "ErrDuplicateSampleForTimestamp"
	case tm.ErrOOOOrTooOld:
		return cls == "ErrOutOfOrderSample" || cls == "ErrTooOldSample"
	}
	return true // Unknown: not judged
}

// Exec applies one op to the database and the model.
func (r *Run) Exec(op Op) error {
	err := r.exec(op)
	if r.DB != nil {
		switch op.K {
		case "compact", "flush", "compactooo", "cleantomb", "reopen", "evictstale", "evictsel", "crashreopen":
			r.scanBlocks()
		}
	}
	return err
}

func (r *Run) exec(op Op) error {
	ctx := context.Background()
	r.Did[op.K]++
	switch op.K {
	case "open":
		if r.Apps[op.A] != nil {
			return nil
		}
		a := &appState{model: r.M.NewAppender(op.Reject), refs: map[int]storage.SeriesRef{}}
		if r.Cfg.V2 {
			a.v2 = r.DB.AppenderV2(ctx)
		} else {
			a.v1 = r.DB.Appender(ctx)
			if op.Reject {
				a.v1.SetOptions(&storage.AppendOptions{DiscardOutOfOrder: true})
			}
		}
		r.Apps[op.A] = a
		r.Trace = append(r.Trace, fmt.Sprintf("open appender %d (v2=%v reject=%v)", op.A, r.Cfg.V2, op.Reject))
	case "add":
		a := r.Apps[op.A]
		if a == nil {
			return nil
		}
		reject := op.Reject
		if !r.Cfg.V2 {
			reject = a.model.Reject
		}
		if ser := r.M.Series[op.S]; r.everCreated[op.S] && !ser.HasLast && r.dupStage[op.S] == 0 {
			inHead := false
			for _, p := range ser.Pts {
				if p.OOOHead {
					inHead = true
				}
			}
			if !inHead {
				r.dupStage[op.S] = 1
			}
		}
		if ser := r.M.Series[op.S]; !ser.HasLast && !r.hasOOOHead(op.S) {
			if r.ghostAtReopen && !r.createdThisSession[op.S] {
				r.SnapRefRisk = true
			}
			r.createdThisSession[op.S] = true
		}
		var want tm.Outcome = tm.Unknown
		if !r.AttributionOnly {
			want = r.M.Append(a.model, op.S, op.T, op.V, reject)
		}
		r.everCreated[op.S] = true
		r.noteAdd(op.A, op.S, op.T, a.model.W)
		ls := SeriesLabels(op.S)
		var ref storage.SeriesRef
		var err error
		var fv float64
		var h *histogram.Histogram
		var fh *histogram.FloatHistogram
		switch op.V.Kind {
		case tm.KFloat:
			fv = gen.F(op.V.F)
		case tm.KStale:
			fv = gen.F(gen.StaleNaNBits)
		case tm.KHist:
			h = tm.MkHist(op.V.H)
		case tm.KFHist:
			fh = tm.MkHist(op.V.H).ToFloat(nil)
		}
		refArg := a.refs[op.S]
		if op.OldRef && r.lastRef[op.S] != 0 {
			refArg = r.lastRef[op.S]
			r.Did["old-ref"]++
		}
		if r.Cfg.V2 {
			ref, err = a.v2.Append(refArg, ls, 0, op.T, fv, h, fh, storage.AOptions{RejectOutOfOrder: reject})
		} else if h != nil || fh != nil {
			ref, err = a.v1.AppendHistogram(refArg, ls, op.T, h, fh)
		} else {
			ref, err = a.v1.Append(refArg, ls, op.T, fv)
		}
		if err == nil {
			r.lastRef[op.S] = ref
		}
		cls := errClass(err)
		r.Trace = append(r.Trace, fmt.Sprintf("appender %d: append series %d t=%d %v reject=%v -> %s (model: %s; window minValid=%d headMaxT=%d ooo=%d)", op.A, op.S, op.T, op.V, reject, cls, want, a.model.W.MinValid, a.model.W.HeadMaxT, a.model.W.OOO))
		if err == nil {
			a.refs[op.S] = ref
		}
		if r.AttributionOnly {
			if err == nil {
				r.M.Series[op.S].StoreOptional(op.T, op.V)
			}
			return nil
		}
		if want == tm.Unknown {
			// the model queued it as "possibly stored"; if the implementation rejected it, un-queue
			if err != nil {
				a.model.Pending = a.model.Pending[:len(a.model.Pending)-1]
			}
			return nil
		}
		if r.CheckAdmission && !outcomeMatches(want, cls) {
			sig := ""
			if !r.Cfg.V2 && reject && (op.V.Kind == tm.KHist || op.V.Kind == tm.KFHist) && want == tm.ErrOOO && cls == "nil" {
				sig = "v1-appendhistogram-ignores-discard-ooo"
			}
			e := r.failf("append admission: series %d t=%d %v: implementation returned %s, the documented rules give %s", op.S, op.T, op.V, cls, want)
			if sig != "" {
				return ev.FailSig(sig, "%s", e.Error())
			}
			return e
		}
		if !r.CheckAdmission && want.Accepted() != (err == nil) {
			// follow the implementation's decision; admission is judged by C02
			if err != nil {
				a.model.Pending = a.model.Pending[:len(a.model.Pending)-1]
			} else {
				a.model.Pending = append(a.model.Pending, tm.Pending{S: op.S, T: op.T, V: op.V, Reject: reject})
			}
		}
	case "commit":
		a := r.Apps[op.A]
		if a == nil {
			return nil
		}
		var err error
		if a.v2 != nil {
			err = a.v2.Commit()
		} else {
			err = a.v1.Commit()
		}
		delete(r.Apps, op.A)
		r.Trace = append(r.Trace, fmt.Sprintf("appender %d: commit -> %v", op.A, err))
		if err != nil {
			return r.failf("Commit returned an error: %v", err)
		}
		if r.AttributionOnly {
			return nil
		}
		r.noteClose(op.A, a.model.Pending)
		for _, p := range a.model.Pending {
			ser := r.M.Series[p.S]
			if ser.HasLast && p.T > ser.LastT {
				continue
			}
			for _, dr := range r.deletedRanges[p.S] {
				if p.T >= dr[0] && p.T <= dr[1] {
					if r.hiddenCands[p.S] == nil {
						r.hiddenCands[p.S] = map[int64]bool{}
					}
					r.hiddenCands[p.S][p.T] = true
					r.Did["append-into-deleted-range"]++
				}
			}
		}
		r.M.Commit(a.model)
		r.commitSigs = map[int]string{}
		if len(r.M.StaleBeforeHist) > 0 {
			r.Did["stale-reorder"]++
		}
		for si := range r.M.StaleBeforeHist {
			// known finding: a float staleness marker for a histogram series is converted at commit
			// and thereby moved behind samples of the same series appended after it in the same batch
			r.commitSigs[si] = "stale-marker-conversion-reorders-commit"
			r.staleReordered[si] = true
		}
	case "rollback":
		a := r.Apps[op.A]
		if a == nil {
			return nil
		}
		var err error
		if a.v2 != nil {
			err = a.v2.Rollback()
		} else {
			err = a.v1.Rollback()
		}
		delete(r.Apps, op.A)
		r.Trace = append(r.Trace, fmt.Sprintf("appender %d: rollback -> %v", op.A, err))
		if err != nil {
			return r.failf("Rollback returned an error: %v", err)
		}
		r.noteClose(op.A, nil)
	case "delete":
		if len(r.Apps) > 0 {
			return nil
		}
		err := r.DB.Delete(ctx, op.Mint, op.Maxt, Matchers(op.Sel)...)
		r.Trace = append(r.Trace, fmt.Sprintf("delete [%d,%d] series %v -> %v", op.Mint, op.Maxt, op.Sel, err))
		if err != nil {
			return r.failf("Delete returned an error: %v", err)
		}
		if r.AttributionOnly {
			return nil
		}
		sel := r.noteDelete(op)
		r.M.Delete(sel, op.Mint, op.Maxt)
	case "compact":
		if len(r.Apps) > 0 {
			return nil
		}
		before := r.DB.Head().MinTime()
		err := r.DB.Compact(ctx)
		r.Trace = append(r.Trace, fmt.Sprintf("db.Compact -> %v; blocks %s", err, r.blocksString()))
		if err == nil && r.DB.Head().MinTime() != before {
			// a head compaction happened; db.Compact then compacts the out-of-order head as well
			r.M.OOOCompacted()
		}
		if err != nil {
			return r.failf("Compact returned an error: %v", err)
		}
		r.afterCompaction()
		r.noteGC()
		r.noteCheckpoint()
		r.noteBlockDeleted(1, 2)
	case "flush":
		if len(r.Apps) > 0 {
			return nil
		}
		hd := r.DB.Head()
		if hd.MinTime() == math.MaxInt64 || hd.MaxTime() == math.MinInt64 || hd.MinTime() > hd.MaxTime() {
			return nil
		}
		mint, maxt := hd.MinTime(), hd.MaxTime()
		err := r.DB.CompactHead(tsdb.NewRangeHead(hd, mint, maxt))
		r.Trace = append(r.Trace, fmt.Sprintf("db.CompactHead(head.MinTime=%d, head.MaxTime=%d) -> %v; blocks %s", mint, maxt, err, r.blocksString()))
		if err != nil {
			return r.failf("CompactHead returned an error: %v", err)
		}
		// CompactHead persists [mint,maxt] and truncates the head to maxt+1 even when the
		// range held no samples (no block is written then)
		r.M.Truncated(maxt + 1)
		r.afterCompaction()
		r.noteGC()
		r.noteCheckpoint()
	case "compactooo":
		if len(r.Apps) > 0 {
			return nil
		}
		err := r.DB.CompactOOOHead(ctx)
		r.Trace = append(r.Trace, fmt.Sprintf("db.CompactOOOHead -> %v; blocks %s", err, r.blocksString()))
		if err != nil {
			return r.failf("CompactOOOHead returned an error: %v", err)
		}
		r.M.OOOCompacted()
		r.noteGC() // truncating the out-of-order head garbage-collects series left without data
	case "cleantomb":
		if len(r.Apps) > 0 {
			return nil
		}
		err := r.DB.CleanTombstones()
		r.Trace = append(r.Trace, fmt.Sprintf("db.CleanTombstones -> %v; blocks %s", err, r.blocksString()))
		if err != nil {
			return r.failf("CleanTombstones returned an error: %v", err)
		}
		r.noteBlockDeleted(1, 2)
	case "mmap":
		r.DB.ForceHeadMMap()
		r.Trace = append(r.Trace, "db.ForceHeadMMap")
	case "reopen":
		if len(r.Apps) > 0 {
			return nil
		}
		err := r.DB.Close()
		r.DB = nil
		r.Trace = append(r.Trace, fmt.Sprintf("db.Close -> %v", err))
		if err != nil {
			return r.failf("Close returned an error: %v", err)
		}
		if err := r.open(); err != nil {
			return err
		}
		amv, _ := r.DB.Head().AppendableMinValidTime()
		r.Trace = append(r.Trace, fmt.Sprintf("tsdb.Open; head min=%d max=%d appendableMinValid=%d; blocks %s", r.DB.Head().MinTime(), r.DB.Head().MaxTime(), amv, r.blocksString()))
		if r.Cfg.Snapshot {
			// any series that ever got a ref and has no data in the head at shutdown (created by a
			// rolled-back appender, or flushed and garbage-collected) is in neither the snapshot
			// nor the WAL replayed after it: if it held the highest ref, that number is free again
			for si := range r.everCreated {
				if !r.M.Series[si].HasLast && !r.hasOOOHead(si) {
					r.ghostAtReopen = true
				}
			}
		}
		r.createdThisSession = map[int]bool{}
		r.lastRef = map[int]storage.SeriesRef{} // series refs are in-memory ids of one DB instance
		for s, st := range r.dupStage {
			if st == 1 || st == 3 {
				r.dupStage[s] = st + 1
			}
		}
		r.M.Restarted(r.DB.Head().MinTime() != math.MaxInt64, r.DB.Head().MaxTime(), r.inOrderBlocksMaxT())
		r.noteHeadDeleted(2, 3)
		r.noteGC()
		for s := range r.tainted {
			r.taintedReopened[s] = true
		}
	case "evictstale", "evictsel":
		if len(r.Apps) > 0 {
			return nil
		}
		var err error
		if op.K == "evictstale" {
			err = r.DB.CompactStaleHead()
		} else {
			var refs []storage.SeriesRef
			for _, si := range op.Sel {
				if ref := r.lastRef[si]; ref != 0 {
					refs = append(refs, ref)
				}
			}
			err = r.DB.CompactSelectedSeries(refs)
		}
		r.Trace = append(r.Trace, fmt.Sprintf("%s %v -> %v; blocks %s", op.K, op.Sel, err, r.blocksString()))
		if err != nil {
			return r.failf("%s returned an error: %v", op.K, err)
		}
		r.syncEvicted()
		r.noteGC()
	case "crashreopen":
		if len(r.Apps) > 0 {
			return nil
		}
		// unclean shutdown: continue on a copy of the live directory
		nd, err := os.MkdirTemp("", "tsdbrun-crash")
		if err != nil {
			return nil
		}
		os.Remove(nd)
		if out, err := exec.Command("cp", "-r", r.Dir, nd).CombinedOutput(); err != nil {
			return r.failf("cp: %v %s", err, out)
		}
		os.Remove(filepath.Join(nd, "lock"))
		_ = r.DB.Close()
		os.RemoveAll(r.Dir)
		r.Dir, r.DB = nd, nil
		r.Trace = append(r.Trace, "unclean shutdown (directory copied while open)")
		if err := r.open(); err != nil {
			return err
		}
		amv, _ := r.DB.Head().AppendableMinValidTime()
		r.Trace = append(r.Trace, fmt.Sprintf("tsdb.Open; head min=%d max=%d appendableMinValid=%d; blocks %s", r.DB.Head().MinTime(), r.DB.Head().MaxTime(), amv, r.blocksString()))
		r.createdThisSession = map[int]bool{}
		r.lastRef = map[int]storage.SeriesRef{} // series refs are in-memory ids of one DB instance
		for s, st := range r.dupStage {
			if st == 1 || st == 3 {
				r.dupStage[s] = st + 1
			}
		}
		r.M.Restarted(r.DB.Head().MinTime() != math.MaxInt64, r.DB.Head().MaxTime(), r.inOrderBlocksMaxT())
		r.noteHeadDeleted(2, 3)
		r.noteGC()
		for s := range r.tainted {
			r.taintedReopened[s] = true
		}
	case "query":
		return r.CheckQuery(op.Mint, op.Maxt, op.Sel)
	}
	return nil
}

// noteDelete does the known-finding bookkeeping of a delete and returns the selected series.
func (r *Run) noteDelete(op Op) []int {
	sel := op.Sel
	if sel == nil {
		for i := range r.M.Series {
			sel = append(sel, i)
		}
	}
	for _, si := range sel {
		r.deletedRanges[si] = append(r.deletedRanges[si], [2]int64{op.Mint, op.Maxt})
		for t, p := range r.M.Series[si].Pts {
			if !p.OOOHead && t >= op.Mint && t <= op.Maxt && t >= r.M.Head.MinValid {
				if r.headDeleted[si] == nil {
					r.headDeleted[si] = map[int64]int{}
				}
				r.headDeleted[si][t] = 1
			}
			if !p.OOOHead && t >= op.Mint && t <= op.Maxt && t < r.M.Head.MinValid {
				if r.blockDeleted[si] == nil {
					r.blockDeleted[si] = map[int64]int{}
				}
				r.blockDeleted[si][t] = 1
			}
			if (p.OOOHead || p.WasOOO) && t >= op.Mint && t <= op.Maxt {
				if r.oooDeleteSurvivors[si] == nil {
					r.oooDeleteSurvivors[si] = map[int64]bool{}
				}
				r.oooDeleteSurvivors[si][t] = true
				r.Did["delete-over-ooo-head"]++
			}
		}
	}
	return sel
}

// classify maps the failure of the last whole-database comparison to the signature of a listed
// finding where the run's bookkeeping attributes the failing (series, t) to one.
func (r *Run) classify(opK string, err error) error {
	if sig := r.commitSigs[r.failSeries]; opK == "commit" && sig != "" {
		return ev.FailSig(sig, "%s", err.Error())
	}
	if r.failExtra && r.oooDeleteSurvivors[r.failSeries][r.failT] {
		return ev.FailSig(SigDeleteOOO, "%s", err.Error())
	}
	if r.failMissing && r.hiddenCands[r.failSeries][r.failT] {
		return ev.FailSig(SigDeleteHidesLater, "%s", err.Error())
	}
	if r.failExtra && r.headDeleted[r.failSeries][r.failT] == 3 {
		return ev.FailSig(SigHeadDeleteLost, "%s", err.Error())
	}
	if r.failExtra && r.blockDeleted[r.failSeries][r.failT] == 3 {
		return ev.FailSig(SigBlockDeleteLost, "%s", err.Error())
	}
	if r.failMissing && (opK == "reopen" || opK == "crashreopen") && r.failT < r.riskBound {
		if p := r.M.Series[r.failSeries].Pts[r.failT]; p != nil && !p.WasOOO {
			return ev.FailSig(SigMixedBound, "%s", err.Error())
		}
	}
	if r.failMissing && r.dupStage[r.failSeries] == 4 {
		if p := r.M.Series[r.failSeries].Pts[r.failT]; p != nil && p.OOOHead {
			return ev.FailSig(SigWBLOrphan, "%s", err.Error())
		}
	}
	if r.failMissing && r.dupStage[r.failSeries] >= 2 && (opK == "reopen" || opK == "crashreopen") {
		if p := r.M.Series[r.failSeries].Pts[r.failT]; p != nil && (p.OOOHead || p.WasOOO) {
			return ev.FailSig(SigDupRecordDropsOOO, "%s", err.Error())
		}
	}
	if r.taintedReopened[r.failSeries] {
		return ev.FailSig(SigSeriesRecordOrder, "%s", err.Error())
	}
	if r.staleReordered[r.failSeries] && opK != "commit" {
		return ev.FailSig("stale-marker-conversion-reorders-commit", "%s", err.Error())
	}
	if r.SnapRefRisk && (opK == "reopen" || opK == "crashreopen") {
		return ev.FailSig(SigSnapRef, "%s", err.Error())
	}
	if r.Cfg.Snapshot && r.failExtra && (opK == "reopen" || opK == "crashreopen") && r.failSeries >= 0 {
		// the symptom of a re-issued ref: after a snapshot restart a sample committed to one series
		// is returned under another one (the WBL / m-mapped chunks still carry the old owner's ref)
		for si, ser := range r.M.Series {
			if si != r.failSeries && ser.Pts[r.failT] != nil {
				return ev.FailSig(SigSnapRef, "%s", err.Error())
			}
		}
	}
	return err
}

// CheckAll compares the whole database with the model; a failure that the bookkeeping
// attributes to a listed finding carries that finding's signature.
func (r *Run) CheckAll(opK string) error {
	r.failSeries, r.failExtra, r.failMissing = -1, false, false
	if err := r.CheckQuery(math.MinInt64, math.MaxInt64, nil); err != nil {
		return r.classify(opK, err)
	}
	return nil
}

// AdoptCrashed replaces the live database of a run that executed the acknowledged prefix of a
// history by dir, the directory a process left behind when it was killed while executing the
// same prefix followed by inflight (nil: killed between operations). The model is relaxed by
// what the operation in flight may or may not have made durable: the samples of a commit in
// flight become optional, the samples covered by a delete in flight become optional; every
// other operation leaves the stored data unchanged.
func (r *Run) AdoptCrashed(dir string, inflight *Op) error {
	if inflight != nil && !r.AttributionOnly {
		switch inflight.K {
		case "commit":
			if a := r.Apps[inflight.A]; a != nil {
				r.noteClose(inflight.A, a.model.Pending)
				for _, p := range a.model.Pending {
					r.M.Series[p.S].StoreOptional(p.T, p.V)
				}
			}
		case "delete":
			if len(r.Apps) == 0 {
				for _, si := range r.noteDelete(*inflight) {
					for t, p := range r.M.Series[si].Pts {
						if t >= inflight.Mint && t <= inflight.Maxt {
							p.Required = false
						}
					}
				}
			}
		case "compact", "flush", "compactooo", "evictstale", "evictsel", "cleantomb":
			// the head compaction in flight may have completed its checkpoint, the tombstone
			// cleanup in flight may have removed an emptied block
			r.noteCheckpoint()
			r.noteBlockDeleted(1, 2)
		}
	}
	for _, a := range r.Apps {
		if a.v1 != nil {
			_ = a.v1.Rollback()
		}
		if a.v2 != nil {
			_ = a.v2.Rollback()
		}
	}
	r.Apps = map[int]*appState{}
	if r.DB != nil {
		_ = r.DB.Close()
	}
	os.RemoveAll(r.Dir)
	r.Dir, r.DB = dir, nil
	desc := "none"
	if inflight != nil {
		desc = inflight.K
	}
	r.Trace = append(r.Trace, "process killed (operation in flight: "+desc+")")
	if err := r.open(); err != nil {
		return err
	}
	amv, _ := r.DB.Head().AppendableMinValidTime()
	r.Trace = append(r.Trace, fmt.Sprintf("tsdb.Open; head min=%d max=%d appendableMinValid=%d; blocks %s", r.DB.Head().MinTime(), r.DB.Head().MaxTime(), amv, r.blocksString()))
	r.createdThisSession = map[int]bool{}
	r.lastRef = map[int]storage.SeriesRef{}
	for s, st := range r.dupStage {
		if st == 1 || st == 3 {
			r.dupStage[s] = st + 1
		}
	}
	r.M.Restarted(r.DB.Head().MinTime() != math.MaxInt64, r.DB.Head().MaxTime(), r.inOrderBlocksMaxT())
	r.noteHeadDeleted(2, 3)
	r.noteGC()
	for s := range r.tainted {
		r.taintedReopened[s] = true
	}
	return nil
}

// syncEvicted forgets the in-order admission state of series that an eviction
// (stale-series / selected-series compaction) removed from the head. Which series were
// evicted is read from the head's index; their data stays queryable from the new blocks.
func (r *Run) syncEvicted() {
	ir, err := r.DB.Head().Index()
	if err != nil {
		return
	}
	defer ir.Close()
	for i, ser := range r.M.Series {
		if !ser.HasLast {
			continue
		}
		p, err := ir.Postings(context.Background(), "s", strconv.Itoa(i))
		if err != nil {
			continue
		}
		if !p.Next() {
			ser.HasLast, ser.Uncertain = false, false
			r.Did["evicted-series"]++
		}
	}
}

func (r *Run) inOrderBlocks() string {
	var ids []string
	for _, b := range r.DB.Blocks() {
		m := b.Meta()
		if !m.Compaction.FromOutOfOrder() && m.Compaction.Level == 1 {
			ids = append(ids, m.ULID.String())
		}
	}
	sort.Strings(ids)
	return strings.Join(ids, ",")
}

func (r *Run) blocksString() string {
	var parts []string
	for _, b := range r.DB.Blocks() {
		m := b.Meta()
		tag := ""
		if m.Compaction.FromOutOfOrder() {
			tag = " ooo"
		}
		parts = append(parts, fmt.Sprintf("[%d,%d) L%d n=%d%s", m.MinTime, m.MaxTime, m.Compaction.Level, m.Stats.NumSamples, tag))
	}
	return strings.Join(parts, " ")
}

// afterCompaction tells the model where the head now starts: no lower than the maximum
// time of any block built from in-order head data (documented: appended samples stay
// ahead of prior blocks).
func (r *Run) afterCompaction() {
	// Only blocks cut from the in-order head move the live head's lower bound. A regular block
	// merged from an out-of-order block (it carries no hint, see the listed finding
	// ooo-block-merged-raises-restart-bound) can end beyond the head's truncation point; it
	// raises the bound at the next restart (Restarted), not while the process lives.
	r.scanBlocks()
	maxt := int64(math.MinInt64)
	for _, b := range r.DB.Blocks() {
		m := b.Meta()
		if m.Compaction.FromOutOfOrder() || m.Compaction.FromStaleSeries() || r.oooULIDs[m.ULID.String()] {
			continue
		}
		if m.MaxTime > maxt {
			maxt = m.MaxTime
		}
	}
	if maxt != math.MinInt64 {
		r.M.Truncated(maxt)
	}
}

func (r *Run) scanBlocks() {
	blocks := r.DB.Blocks()
	for _, b := range blocks {
		m := b.Meta()
		if m.Compaction.FromOutOfOrder() {
			r.oooULIDs[m.ULID.String()] = true
		}
	}
	for _, b := range blocks {
		m := b.Meta()
		id := m.ULID.String()
		if m.Compaction.FromOutOfOrder() {
			continue
		}
		if r.seenULIDs == nil {
			r.seenULIDs = map[string]bool{}
		}
		r.seenULIDs[id] = true
		descends := false
		for _, p := range m.Compaction.Parents {
			if r.oooULIDs[p.ULID.String()] {
				descends = true
			}
		}
		if descends {
			r.oooULIDs[id] = true
		}
		// For the restart bound only: Sources lists the level-1 blocks a block was built from,
		// also across merges that happened inside one Compact call. A source that was never
		// observed as a regular block was cut and merged within that call; it may have been an
		// out-of-order block.
		risky := descends
		for _, src := range m.Compaction.Sources {
			sid := src.String()
			if r.oooULIDs[sid] || (m.Compaction.Level > 1 && !r.seenULIDs[sid]) {
				risky = true
			}
		}
		if risky && m.MaxTime > r.riskBound {
			r.riskBound = m.MaxTime
		}
	}
}

func (r *Run) inOrderBlocksMaxT() int64 {
	r.scanBlocks()
	maxt := int64(math.MinInt64)
	for _, b := range r.DB.Blocks() {
		m := b.Meta()
		if m.Compaction.FromOutOfOrder() || m.Compaction.FromStaleSeries() {
			continue
		}
		if m.MaxTime > maxt {
			maxt = m.MaxTime
		}
	}
	return maxt
}

// Obs is one returned sample.
type Obs struct {
	T    int64
	Kind uint8 // tm.KFloat / KHist / KFHist
	F    uint64
	H    *histogram.Histogram
	FH   *histogram.FloatHistogram
}

func (o Obs) stale() bool {
	switch o.Kind {
	case tm.KFloat:
		return o.F == gen.StaleNaNBits
	case tm.KHist:
		return gen.B(o.H.Sum) == gen.StaleNaNBits
	default:
		return gen.B(o.FH.Sum) == gen.StaleNaNBits
	}
}

func (o Obs) String() string {
	switch o.Kind {
	case tm.KFloat:
		return fmt.Sprintf("float(%v/0x%x)", gen.F(o.F), o.F)
	case tm.KHist:
		return "hist " + o.H.String()
	}
	return "fhist " + o.FH.String()
}

// Matches reports whether the observed sample is the stored value v.
func (o Obs) Matches(v tm.Val) bool {
	switch v.Kind {
	case tm.KStale:
		return o.stale()
	case tm.KFloat:
		return o.Kind == tm.KFloat && o.F == v.F
	case tm.KHist:
		if o.Kind != tm.KHist {
			return false
		}
		return gen.FloatHistSemantic(o.H.ToFloat(nil), tm.MkHist(v.H).ToFloat(nil), false) == ""
	case tm.KFHist:
		if o.Kind != tm.KFHist {
			return false
		}
		return gen.FloatHistSemantic(o.FH, tm.MkHist(v.H).ToFloat(nil), false) == ""
	}
	return false
}

// Drain reads all samples of an iterator.
func Drain(it chunkenc.Iterator) ([]Obs, error) {
	var out []Obs
	for vt := it.Next(); vt != chunkenc.ValNone; vt = it.Next() {
		switch vt {
		case chunkenc.ValFloat:
			t, v := it.At()
			out = append(out, Obs{T: t, Kind: tm.KFloat, F: gen.B(v)})
		case chunkenc.ValHistogram:
			t, h := it.AtHistogram(nil)
			out = append(out, Obs{T: t, Kind: tm.KHist, H: h.Copy()})
		case chunkenc.ValFloatHistogram:
			t, fh := it.AtFloatHistogram(nil)
			out = append(out, Obs{T: t, Kind: tm.KFHist, FH: fh.Copy()})
		}
	}
	return out, it.Err()
}

// Result is label-index -> samples.
type Result map[int][]Obs

// QuerySamples runs a sample-level Select.
func QuerySamples(q storage.Querier, ms []*labels.Matcher) (Result, error) {
	res := Result{}
	ss := q.Select(context.Background(), true, nil, ms...)
	var prev labels.Labels
	first := true
	for ss.Next() {
		s := ss.At()
		ls := s.Labels()
		if !first && labels.Compare(prev, ls) >= 0 {
			return nil, fmt.Errorf("series not sorted / duplicated: %v after %v", ls, prev)
		}
		first, prev = false, ls.Copy()
		i := seriesIndex(ls)
		if i < 0 || !labels.Equal(ls, SeriesLabels(i)) {
			return nil, fmt.Errorf("unknown series returned: %v", ls)
		}
		obs, err := Drain(s.Iterator(nil))
		if err != nil {
			return nil, fmt.Errorf("iterator error for %v: %w", ls, err)
		}
		res[i] = obs
	}
	if err := ss.Err(); err != nil {
		return nil, fmt.Errorf("series set error: %w", err)
	}
	return res, nil
}

// QueryChunks runs a chunk-level Select and decodes the chunks.
func QueryChunks(q storage.ChunkQuerier, ms []*labels.Matcher, mint, maxt int64) (Result, error) {
	res := Result{}
	ss := q.Select(context.Background(), true, nil, ms...)
	for ss.Next() {
		s := ss.At()
		ls := s.Labels()
		i := seriesIndex(ls)
		if i < 0 || !labels.Equal(ls, SeriesLabels(i)) {
			return nil, fmt.Errorf("unknown series returned: %v", ls)
		}
		if _, dup := res[i]; dup {
			return nil, fmt.Errorf("series %v returned twice by the chunk querier", ls)
		}
		var all []Obs
		cit := s.Iterator(nil)
		lastMax := int64(math.MinInt64)
		n := 0
		for cit.Next() {
			m := cit.At()
			obs, err := Drain(m.Chunk.Iterator(nil))
			if err != nil {
				return nil, fmt.Errorf("chunk iterator error for %v: %w", ls, err)
			}
			if len(obs) == 0 {
				return nil, fmt.Errorf("empty chunk returned for %v", ls)
			}
			if obs[0].T != m.MinTime || obs[len(obs)-1].T != m.MaxTime {
				return nil, fmt.Errorf("chunk meta [%d,%d] of %v does not match its samples [%d,%d]", m.MinTime, m.MaxTime, ls, obs[0].T, obs[len(obs)-1].T)
			}
			if n > 0 && m.MinTime <= lastMax {
				return nil, fmt.Errorf("chunks of %v overlap or are unordered: chunk starting %d after chunk ending %d", ls, m.MinTime, lastMax)
			}
			lastMax = m.MaxTime
			n++
			for _, o := range obs {
				if o.T >= mint && o.T <= maxt {
					all = append(all, o)
				}
			}
		}
		if err := cit.Err(); err != nil {
			return nil, fmt.Errorf("chunk series iterator error: %w", err)
		}
		res[i] = all
	}
	if err := ss.Err(); err != nil {
		return nil, fmt.Errorf("chunk series set error: %w", err)
	}
	return res, nil
}

// Compare checks a result against the model for [mint,maxt] and the selected series.
func (r *Run) Compare(what string, res Result, mint, maxt int64, sel []int) error {
	selected := map[int]bool{}
	if sel == nil {
		for i := range r.M.Series {
			selected[i] = true
		}
	} else {
		for _, i := range sel {
			selected[i] = true
		}
	}
	var keys []int
	for i := range res {
		keys = append(keys, i)
	}
	sort.Ints(keys)
	for _, i := range keys {
		if !selected[i] {
			return r.failf("%s [%d,%d]: series %d returned but not selected by the matchers", what, mint, maxt, i)
		}
	}
	for i := range r.M.Series {
		if !selected[i] {
			continue
		}
		ms := r.M.Series[i]
		obs := res[i]
		seen := map[int64]bool{}
		last := int64(math.MinInt64)
		for k, o := range obs {
			if k > 0 && o.T <= last {
				return r.sfailf(i, "%s [%d,%d]: series %d: timestamps not strictly increasing (%d after %d)", what, mint, maxt, i, o.T, last)
			}
			last = o.T
			if o.T < mint || o.T > maxt {
				return r.sfailf(i, "%s [%d,%d]: series %d: sample at t=%d outside the queried range", what, mint, maxt, i, o.T)
			}
			p := ms.Pts[o.T]
			if p == nil {
				r.failT, r.failExtra = o.T, true
				return r.sfailf(i, "%s [%d,%d]: series %d: sample at t=%d (%v) returned but no committed, undeleted sample exists there", what, mint, maxt, i, o.T, o)
			}
			ok := false
			for _, v := range p.Vals {
				if o.Matches(v) {
					ok = true
					break
				}
			}
			if !ok {
				return r.sfailf(i, "%s [%d,%d]: series %d t=%d: returned %v, stored values are %v", what, mint, maxt, i, o.T, o, p.Vals)
			}
			seen[o.T] = true
		}
		for _, t := range ms.Times(mint, maxt) {
			if r.SoundOnly {
				break
			}
			if ms.Pts[t].Required && !seen[t] {
				r.failT, r.failMissing = t, true
				return r.sfailf(i, "%s [%d,%d]: series %d: committed sample at t=%d (%v) is missing from the result", what, mint, maxt, i, t, ms.Pts[t].Vals)
			}
		}
	}
	return nil
}

// CheckQuery compares sample-level and chunk-level query results with the model.
func (r *Run) CheckQuery(mint, maxt int64, sel []int) error {
	q, err := r.DB.Querier(mint, maxt)
	if err != nil {
		return r.failf("Querier(%d,%d): %v", mint, maxt, err)
	}
	res, err := QuerySamples(q, Matchers(sel))
	q.Close()
	if err != nil {
		return r.failf("query [%d,%d]: %v", mint, maxt, err)
	}
	if err := r.Compare("query", res, mint, maxt, sel); err != nil {
		return err
	}
	cq, err := r.DB.ChunkQuerier(mint, maxt)
	if err != nil {
		return r.failf("ChunkQuerier(%d,%d): %v", mint, maxt, err)
	}
	cres, err := QueryChunks(cq, Matchers(sel), mint, maxt)
	cq.Close()
	if err != nil {
		return r.failf("chunk query [%d,%d]: %v", mint, maxt, err)
	}
	return r.Compare("chunk query", cres, mint, maxt, sel)
}

// RunAll executes a history; after every mutating op the whole database is compared.
func RunAll(h History, rec *ev.Rec, setup func(r *Run)) (*Run, error) {
	r, err := Start(h, rec)
	if err != nil {
		return nil, err
	}
	if setup != nil {
		setup(r)
	}
	for _, op := range h.Ops {
		if err := r.Exec(op); err != nil {
			return r, err
		}
		switch op.K {
		case "commit", "delete", "compact", "flush", "compactooo", "cleantomb", "reopen", "mmap", "evictstale", "evictsel", "crashreopen":
			if len(r.Apps) == 0 || op.K == "commit" {
				r.failSeries, r.failExtra, r.failMissing = -1, false, false
				if err := r.CheckQuery(math.MinInt64, math.MaxInt64, nil); err != nil {
					return r, r.classify(op.K, err)
				}
			}
		}
		if r.AfterStep != nil {
			if err := r.AfterStep(r, op); err != nil {
				return r, err
			}
		}
	}
	return r, nil
}
