// Package tsdbmodel is the reference model of TSDB contents and of the append
// admission rules, written from the documented behaviour (storage/interface*.go
// comments, docs/storage.md, the property statements C01/C02/C20). It never calls the
// code under test.
package tsdbmodel

import (
	"fmt"
	"math"
	"sort"

	"github.com/prometheus/prometheus/model/histogram"

	"verifharness/internal/gen"
)

// Kinds of appended values.
const (
	KFloat  = 0
	KHist   = 1
	KFHist  = 2
	KStale  = 3 // float staleness marker (StaleNaN); stored as a stale sample of the series' current type
	NumHist = 12
)

// Val identifies an appended value. For KFloat F holds the float bits; for
// KHist/KFHist H selects a histogram of a small fixed family (MkHist).
type Val struct {
	Kind uint8
	F    uint64
	H    int
}

func (v Val) String() string {
	switch v.Kind {
	case KFloat:
		return fmt.Sprintf("float(%v/0x%x)", gen.F(v.F), v.F)
	case KHist:
		return fmt.Sprintf("hist#%d", v.H)
	case KFHist:
		return fmt.Sprintf("fhist#%d", v.H)
	}
	return "stale"
}

// MkHist builds member id of the fixed histogram family (always valid).
func MkHist(id int) *histogram.Histogram {
	id = ((id % NumHist) + NumHist) % NumHist
	h := &histogram.Histogram{Schema: int32(id%3) - 1, ZeroThreshold: 0.001, ZeroCount: uint64(id % 4)}
	c1, c2 := int64(id+1), int64(2*id+3)
	h.PositiveSpans = []histogram.Span{{Offset: int32(id%2) - 1, Length: 2}}
	h.PositiveBuckets = []int64{c1, c2 - c1}
	total := uint64(c1+c2) + h.ZeroCount
	if id%4 == 1 {
		h.NegativeSpans = []histogram.Span{{Offset: 0, Length: 1}, {Offset: 2, Length: 1}}
		h.NegativeBuckets = []int64{3, -1}
		total += 5
	}
	if id%6 == 5 {
		// custom buckets
		h = &histogram.Histogram{Schema: histogram.CustomBucketsSchema, CustomValues: []float64{1, 2.5, 10},
			PositiveSpans: []histogram.Span{{Offset: 0, Length: 2}, {Offset: 1, Length: 1}}, PositiveBuckets: []int64{c1, 1, 2}}
		total = uint64(c1 + c1 + 1 + c1 + 3)
	}
	h.Count = total
	h.Sum = float64(id) * 1.5
	return h
}

// Point is what the model knows about one (series, timestamp).
type Point struct {
	// Required: at least one value is definitely stored, so a query must return a sample.
	Required bool
	// Vals: every value that may be returned at this timestamp.
	Vals []Val
	// OOOHead: a value of this point was stored through the out-of-order path and has not
	// been compacted into a block since (it lives in the out-of-order head).
	OOOHead bool
	// WasOOO: a value of this point was ever stored through the out-of-order path (its
	// m-mapped out-of-order chunk may be reloaded from chunks_head after a restart even
	// after it was compacted into a block).
	WasOOO bool
}

func (p *Point) add(v Val, required bool) {
	if required {
		p.Required = true
	}
	for _, x := range p.Vals {
		if x == v {
			return
		}
	}
	p.Vals = append(p.Vals, v)
}

// Series is the model state of one label set.
type Series struct {
	Pts map[int64]*Point
	// Newest in-order sample currently in the head (HasLast=false: none, the series
	// is fresh as far as in-order admission is concerned).
	HasLast bool
	LastT   int64
	LastV   Val // Kind KStale never stored here: staleness keeps LastKind
	// LastKind is the type of the newest in-order sample (KFloat/KHist/KFHist).
	LastKind  uint8
	LastStale bool
	// LastStaleAmbig: the newest sample is a staleness marker whose stored type (float or
	// histogram marker) is not determined; a marker re-sent at that timestamp is not judged.
	LastStaleAmbig bool
	// EverT (valid if HasEver): the highest timestamp ever committed in-order for the series.
	// Neither deletes nor truncations that wrote no block remove such a sample from the WAL, so
	// a restart that lowers the bound can bring it back as the series' newest in-order sample.
	HasEver bool
	EverT   int64
	// Ghost: the newest in-order sample recorded in LastT is only possibly in the head (it came
	// back through one of the restart rules); cleared by the next certain in-order commit.
	Ghost bool
	// Uncertain: after a restart the implementation may or may not hold an open head
	// chunk for the series; appends at or below LastT are then not judged.
	Uncertain bool
}

// Outcome of an append decision.
type Outcome int

const (
	InOrder Outcome = iota
	NoOpDup         // bit-identical re-append of the newest sample: accepted, stores nothing
	OOO
	ErrOOB
	ErrOOO
	ErrTooOld
	ErrDup
	Unknown        // not judged (uncertain state)
	ErrOOOOrTooOld // beyond the out-of-order window with the reject option: either error names the rejection
)

func (o Outcome) String() string {
	return [...]string{"in-order", "no-op duplicate", "out-of-order accept", "ErrOutOfBounds", "ErrOutOfOrderSample", "ErrTooOldSample", "ErrDuplicateSampleForTimestamp", "unknown", "ErrOutOfOrderSample or ErrTooOldSample"}[o]
}

// Accepted reports whether the outcome means "no error".
func (o Outcome) Accepted() bool { return o == InOrder || o == NoOpDup || o == OOO }

// Window is the admission window an appender captured at creation.
type Window struct {
	MinValid int64 // appendable min valid time
	HeadMaxT int64
	OOO      int64 // out-of-order time window
	Reject   bool  // reject-out-of-order option (per appender for v1, per append for v2)
}

// Head is the model of the head's appendable window.
type Head struct {
	Init       bool
	MaxT       int64
	MinValid   int64 // lower bound from truncations / blocks (math.MinInt64 when none)
	ChunkRange int64
	OOOWindow  int64
}

// AppendableMinValid is the documented lower bound for in-order appends.
func (h *Head) AppendableMinValid() int64 {
	cw := h.MaxT - h.ChunkRange/2
	if h.MinValid > cw {
		return h.MinValid
	}
	return cw
}

// Snapshot returns the window a new appender sees.
func (h *Head) Snapshot() Window {
	return Window{MinValid: h.AppendableMinValid(), HeadMaxT: h.MaxT, OOO: h.OOOWindow}
}

// sameValue implements "bit-identical value" for the duplicate rule.
func sameAsLast(s *Series, v Val) bool {
	if v.Kind == KStale {
		return s.LastStale
	}
	if s.LastStale {
		return false
	}
	return s.LastKind == v.Kind && s.LastV == v
}

// Decide is the admission rule for one append against the current series state.
func Decide(s *Series, t int64, v Val, w Window) Outcome {
	if w.OOO == 0 && t < w.MinValid {
		return ErrOOB
	}
	if t >= w.MinValid {
		if !s.HasLast {
			return InOrder
		}
		if s.Uncertain && t <= s.LastT {
			return Unknown
		}
		if t > s.LastT {
			return InOrder
		}
		if t == s.LastT {
			if v.Kind == KStale && s.LastStale && s.LastStaleAmbig {
				return Unknown
			}
			if v.Kind == KStale && s.LastKind != KFloat {
				// a float staleness marker re-sent at the timestamp of a histogram sample: whether it
				// is converted to the series' type before the duplicate check depends on what the same
				// appender appended earlier; the property does not pin it down
				return Unknown
			}
			if sameAsLast(s, v) {
				return NoOpDup
			}
			// A float staleness marker re-appended on a histogram series is converted to the
			// series' type, so it is compared as "stale" above; any other difference is a duplicate.
			return ErrDup
		}
	}
	if w.OOO > 0 && t >= w.HeadMaxT-w.OOO {
		if w.Reject {
			return ErrOOO
		}
		return OOO
	}
	if w.OOO > 0 {
		if w.Reject {
			return ErrOOOOrTooOld // v2 reports OOO, v1 too-old; both name an out-of-order rejection
		}
		return ErrTooOld
	}
	if t < w.MinValid {
		return ErrOOB
	}
	return ErrOOO
}

// Pending is one accepted append waiting for commit.
type Pending struct {
	S      int
	T      int64
	V      Val
	Reject bool
}

// Appender is the model of an open appender.
type Appender struct {
	Lazy    bool // created on an uninitialised head: window captured at first append
	W       Window
	Pending []Pending
	Reject  bool
}

// Model is the whole-database model.
type Model struct {
	Head   Head
	Series []*Series
	// Stats counts model events (used for non-triviality rules and class counters).
	Stats map[string]int
	// StaleBeforeHist lists, for the last Commit, the series for which a float staleness
	// marker was processed while the series' newest sample was a histogram and another
	// append for the same series followed later in the same transaction.
	StaleBeforeHist map[int]bool
}

func (m *Model) stat(k string) {
	if m.Stats == nil {
		m.Stats = map[string]int{}
	}
	m.Stats[k]++
}

func New(nseries int, chunkRange, oooWindow int64) *Model {
	m := &Model{Head: Head{MaxT: math.MinInt64, MinValid: math.MinInt64, ChunkRange: chunkRange, OOOWindow: oooWindow}}
	for i := 0; i < nseries; i++ {
		m.Series = append(m.Series, &Series{Pts: map[int64]*Point{}})
	}
	return m
}

// NewAppender models Head.Appender().
func (m *Model) NewAppender(reject bool) *Appender {
	a := &Appender{Reject: reject}
	if !m.Head.Init {
		a.Lazy = true
	} else {
		a.W = m.Head.Snapshot()
	}
	a.W.Reject = reject
	return a
}

// Append models Appender.Append: returns the expected outcome and queues accepted samples.
func (m *Model) Append(a *Appender, si int, t int64, v Val, reject bool) Outcome {
	if a.Lazy {
		// the first append through an appender created on an empty head initialises the
		// head's time range with its timestamp
		if !m.Head.Init {
			m.Head.Init = true
			m.Head.MaxT = t
		}
		a.W = m.Head.Snapshot()
		a.Lazy = false
	}
	w := a.W
	w.Reject = reject
	o := Decide(m.Series[si], t, v, w)
	ser := m.Series[si]
	if v.Kind == KStale && ser.HasLast && t == ser.LastT && (o == NoOpDup || o == ErrDup) {
		// A float staleness marker is converted to the histogram type the same appender used
		// last for this series before the duplicate rule is applied (an optimisation the
		// implementation documents as imperfect); re-sent at the newest timestamp it is then
		// compared as a histogram. The property does not pin the outcome down.
		for _, p := range a.Pending {
			if p.S == si && (p.V.Kind == KHist || p.V.Kind == KFHist) {
				o = Unknown
			}
		}
	}
	m.stat("append:" + o.String())
	if (ser.HasLast && t == ser.LastT) || t == w.MinValid || (w.OOO > 0 && t == w.HeadMaxT-w.OOO) {
		m.stat("boundary")
	}
	if o.Accepted() || o == Unknown {
		a.Pending = append(a.Pending, Pending{S: si, T: t, V: v, Reject: reject})
	}
	return o
}

// store records a definitely (required) or possibly stored value.
func (s *Series) store(t int64, v Val, required bool) {
	p := s.Pts[t]
	if p == nil {
		p = &Point{}
		s.Pts[t] = p
	}
	p.add(v, required)
}

// StoreOptional records a value that may be returned for (series, t) without requiring it.
func (s *Series) StoreOptional(t int64, v Val) { s.store(t, v, false) }

// Commit models Appender.Commit: accepted samples are re-checked in append order.
// The reject option is an append-time fast path only; at commit an OOO sample is stored OOO.
func (m *Model) Commit(a *Appender) {
	maxT := int64(math.MinInt64)
	m.StaleBeforeHist = map[int]bool{}
	for i, p := range a.Pending {
		s := m.Series[p.S]
		// (a series whose chunks were all truncated keeps the type of its last value in memory
		// until it is garbage-collected, hence HasEver)
		if p.V.Kind == KStale && (s.HasLast || s.HasEver) && (s.LastKind != KFloat || (s.LastStale && s.LastStaleAmbig)) {
			for _, q := range a.Pending[i+1:] {
				if q.S == p.S {
					m.StaleBeforeHist[p.S] = true
				}
			}
		}
		w := a.W
		w.Reject = false
		d := Decide(s, p.T, p.V, w)
		m.stat("commit:" + d.String())
		if !d.Accepted() && d != Unknown {
			m.stat("dropped-at-commit")
		}
		switch d {
		case InOrder:
			sv := p.V
			s.store(p.T, sv, true)
			s.HasLast, s.LastT, s.Uncertain, s.Ghost = true, p.T, false, false
			if !s.HasEver || p.T > s.EverT {
				s.HasEver, s.EverT = true, p.T
			}
			if p.V.Kind == KStale {
				s.LastStale = true // type of the series is kept
				// The marker is stored as a float or as a histogram marker depending on the type
				// the same appender used last for the series (also for samples it appended but
				// that were dropped at commit): with mixed types in the batch the stored
				// representation is not determined by the committed history.
				s.LastStaleAmbig = false
				for _, q := range a.Pending[:i] {
					if q.S == p.S && q.V.Kind != KStale && q.V.Kind != s.LastKind {
						s.LastStaleAmbig = true
					}
				}
			} else {
				s.LastStale, s.LastStaleAmbig, s.LastKind, s.LastV = false, false, p.V.Kind, p.V
			}
			if p.T > maxT {
				maxT = p.T
			}
		case OOO:
			// stored out-of-order unless it is dropped as a duplicate of a sample of the
			// current out-of-order chunk with the same timestamp
			pt := s.Pts[p.T]
			if pt != nil && len(pt.Vals) > 0 {
				s.store(p.T, p.V, false)
			} else {
				s.store(p.T, p.V, true)
			}
			s.Pts[p.T].OOOHead = true
			s.Pts[p.T].WasOOO = true
		case Unknown:
			s.store(p.T, p.V, false)
			s.Pts[p.T].OOOHead = true // if it was stored at all, then through the out-of-order path
			s.Pts[p.T].WasOOO = true
		default:
			// dropped at commit (made out-of-order / duplicate / out-of-bounds by an earlier sample)
		}
	}
	if maxT != math.MinInt64 {
		if !m.Head.Init || maxT > m.Head.MaxT {
			m.Head.MaxT = maxT
		}
		m.Head.Init = true
	}
	a.Pending = nil
}

// Delete removes all points of the selected series in [mint,maxt].
func (m *Model) Delete(sel []int, mint, maxt int64) {
	for _, si := range sel {
		s := m.Series[si]
		for t := range s.Pts {
			if t >= mint && t <= maxt {
				delete(s.Pts, t)
			}
		}
	}
}

// OOOCompacted models a compaction of the out-of-order head into blocks.
func (m *Model) OOOCompacted() {
	for _, s := range m.Series {
		for _, p := range s.Pts {
			p.OOOHead = false
		}
	}
}

// Truncated models a head truncation at mint (samples below moved to a block):
// in-order admission state of series whose newest sample is older is forgotten.
func (m *Model) Truncated(mint int64) {
	if mint > m.Head.MinValid {
		m.Head.MinValid = mint
	}
	// the head's time range never ends before it starts: truncating beyond the newest
	// sample (or truncating an empty head) moves the head's max time up to mint
	if !m.Head.Init || m.Head.MaxT < mint {
		m.Head.MaxT = mint
		m.Head.Init = true
	}
	for _, s := range m.Series {
		if s.HasLast && s.LastT < mint {
			s.HasLast, s.Uncertain = false, false
		}
	}
}

// Restarted models close/reopen: the head's max time is recomputed from the in-order
// samples still in the head (t >= MinValid); series keep their newest sample but whether
// an open chunk exists for it is an implementation detail.
//
// When no in-order sample is left in the head, the implementation either starts with an
// uninitialised head or with a head whose time range is [MinValid, MinValid] (leftover
// chunk files below MinValid are clamped); headInit tells which of the two it reports.
// blocksMaxT is the largest MaxTime of the persisted in-order blocks (math.MinInt64 if
// none): on open the head's lower bound restarts from there, in-memory truncations that
// produced no block are forgotten.
//
// headMaxT is the head's max time as the implementation reports it after the restart. It is
// only used when no in-order sample is left in the head: replayed out-of-order samples (WBL,
// m-mapped out-of-order chunks) then decide the head's time range, which the model of in-order
// admission cannot derive.
func (m *Model) Restarted(headInit bool, headMaxT, blocksMaxT int64) {
	m.Head.MinValid = blocksMaxT
	// Out-of-order samples are logged in the WAL as well as in the WBL. When the restart lowers
	// the bound (in-memory truncations that produced no block are forgotten), WAL replay appends
	// such a sample to the series' in-order chunk if the series has nothing newer there; whether
	// it does depends on record order. From then on the series may or may not hold an in-order
	// sample at that timestamp: appends at or below it are not judged.
	for _, s := range m.Series {
		if s.HasLast && s.LastT < m.Head.MinValid {
			s.HasLast = false
		}
		for t, p := range s.Pts {
			if (p.WasOOO || p.OOOHead) && t >= m.Head.MinValid && (!s.HasLast || t > s.LastT) && len(p.Vals) > 0 {
				s.HasLast, s.LastT, s.Uncertain, s.Ghost = true, t, true, true
				if s.LastStale = p.Vals[0].Kind == KStale; !s.LastStale {
					s.LastKind, s.LastV = p.Vals[0].Kind, p.Vals[0]
				}
			}
		}
	}
	for _, s := range m.Series {
		if s.HasEver && s.EverT >= m.Head.MinValid && (!s.HasLast || s.LastT < s.EverT) {
			s.HasLast, s.LastT, s.Uncertain, s.Ghost = true, s.EverT, true, true
		}
	}
	pseudo := false // some series' newest in-order sample is only possibly there
	for _, s := range m.Series {
		if s.HasLast && s.Ghost {
			if !headInit {
				// the implementation reports an empty head: nothing came back
				s.HasLast, s.Ghost, s.Uncertain = false, false, false
				continue
			}
			pseudo = true
		}
	}
	maxT := int64(math.MinInt64)
	any := false
	for _, s := range m.Series {
		if s.HasLast {
			if s.LastT >= m.Head.MinValid {
				any = true
				if s.LastT > maxT {
					maxT = s.LastT
				}
				s.Uncertain = true
			} else {
				s.HasLast = false
			}
		}
	}
	m.Head.Init = any
	switch {
	case any && !pseudo:
		m.Head.MaxT = maxT
	case headInit:
		// nothing in-order is known to be left (or only samples that may have been replayed
		// in-order): the head's range is what replayed out-of-order data made it
		m.Head.Init = true
		m.Head.MaxT = headMaxT
	default:
		m.Head.Init = false
		m.Head.MaxT = math.MinInt64
	}
}

// Times returns the sorted timestamps of a series within [mint,maxt].
func (s *Series) Times(mint, maxt int64) []int64 {
	var ts []int64
	for t := range s.Pts {
		if t >= mint && t <= maxt {
			ts = append(ts, t)
		}
	}
	sort.Slice(ts, func(i, j int) bool { return ts[i] < ts[j] })
	return ts
}
