// Package pqlgen generates well-typed PromQL expression strings structurally.
//
// The generator is type directed (instant vector / scalar / range vector / string) and
// draws every choice from a *rapid.T, so a failing case shrinks towards small
// expressions. It covers every node kind of promql/parser: selectors with matchers,
// offset / @ / anchored / smoothed modifiers, range selectors and subqueries,
// aggregations (with parameter, by / without), binary operators with bool, on /
// ignoring, group_left / group_right and fill modifiers, calls to every function in
// parser.Functions with type-correct arguments, unary operators, parentheses, number,
// duration and string literals and (optionally) duration expressions.
//
// The universe of metric names, label names and label values is configurable so that
// the expressions select from a data set the caller has loaded; features can be
// switched off for callers that need evaluable, deterministic or range-independent
// queries (see Options).
package pqlgen

import (
	"fmt"
	"sort"
	"strconv"
	"strings"

	"github.com/prometheus/prometheus/promql/parser"
	"pgregory.net/rapid"
)

// Options configures the generator. The zero value is usable: three metrics m1..m3,
// labels a, b, job, le, every feature of the language enabled except Exotic syntax.
type Options struct {
	// Metrics, Labels, Values: the universe the selectors, groupings and matchers draw from.
	Metrics []string
	Labels  []string
	Values  []string
	// MaxDepth bounds the nesting depth of the generated expression (default 4).
	MaxDepth int
	// Durations are the literals used for ranges, offsets and subquery steps (default 30s..1h).
	Durations []string
	// AtTimestamps are the literals used with the @ modifier (seconds; default 0, 10, 100.5, 1e3).
	AtTimestamps []string

	// NoQueryRangeDependent excludes everything whose value depends on the start, end or
	// step of the query it is embedded in: start() / end() / range() / step() (as
	// functions, as @ modifiers and inside duration expressions) and subqueries without an
	// explicit step. With it set, an expression means the same in an instant query at t
	// and in step t of a range query.
	NoQueryRangeDependent bool
	// NoExperimental excludes functions and aggregations gated by
	// parser.Options.EnableExperimentalFunctions.
	NoExperimental bool
	// NoDurationExpr excludes arithmetic duration expressions (parser.Options.ExperimentalDurationExpr).
	NoDurationExpr bool
	// NoExtendedRange excludes anchored / smoothed (parser.Options.EnableExtendedRangeSelectors).
	NoExtendedRange bool
	// NoFill excludes fill / fill_left / fill_right (parser.Options.EnableBinopFillModifiers).
	NoFill bool
	// NoAt, NoOffset, NoNegativeOffset, NoSubquery switch the respective modifiers off.
	NoAt, NoOffset, NoNegativeOffset, NoSubquery bool
	// NoTimeFunctions excludes functions whose result depends on the evaluation time but not
	// on data (time(), and the date functions called without argument).
	NoTimeFunctions bool
	// ExcludeFunctions lists function names never to call.
	ExcludeFunctions []string
	// OnlyFunctions, when non-empty, restricts calls to these functions.
	OnlyFunctions []string
	// NoSpecialFloats keeps NaN / Inf literals out of number positions.
	NoSpecialFloats bool
	// ExcludeAggregations lists aggregation operators never to use (e.g. the ones whose
	// result depends on the order of equal elements: topk, bottomk, limitk).
	ExcludeAggregations []string

	// Exotic switches on alternative spellings that exercise lexer, printer and prettifier:
	// quoted UTF-8 metric and label names, keywords used as names, single-quoted and raw
	// strings with escapes, hex / exponent / underscore numbers, durations as numbers and
	// numbers as durations, upper-case keywords, odd spacing, comments, trailing commas,
	// alternative clause order, very long label values.
	Exotic bool
}

// ParserOptions returns the parser.Options that accept everything the generator can
// produce under o.
func (o Options) ParserOptions() parser.Options {
	return parser.Options{
		EnableExperimentalFunctions:  !o.NoExperimental,
		ExperimentalDurationExpr:     !o.NoDurationExpr,
		EnableExtendedRangeSelectors: !o.NoExtendedRange,
		EnableBinopFillModifiers:     !o.NoFill,
	}
}

// Type selects the result type of the generated expression.
type Type int

const (
	Vector Type = iota
	Scalar
	Matrix
	String
	// VectorOrScalar draws an instant vector (3/4) or a scalar (1/4) expression: what an
	// instant or range query accepts besides strings and range vectors.
	VectorOrScalar
)

// Expr returns a generator of expression strings of the given type.
func Expr(o Options, ty Type) *rapid.Generator[string] {
	return rapid.Custom(func(t *rapid.T) string {
		g := newG(t, o)
		d := g.o.MaxDepth
		switch ty {
		case Scalar:
			return g.scalar(d)
		case Matrix:
			return g.matrix(d)
		case String:
			return g.str()
		case VectorOrScalar:
			if g.n("toptype", 4) == 0 {
				return g.scalar(d)
			}
			return g.vector(d)
		default:
			return g.vector(d)
		}
	})
}

// VectorExpr is Expr(o, Vector).
func VectorExpr(o Options) *rapid.Generator[string] { return Expr(o, Vector) }

// Selector returns a generator of plain instant vector selectors (name plus matchers, no modifiers).
func Selector(o Options) *rapid.Generator[string] {
	return rapid.Custom(func(t *rapid.T) string {
		g := newG(t, o)
		return g.bareSelector()
	})
}

type fn struct {
	name     string
	args     []parser.ValueType
	variadic int
	ret      parser.ValueType
}

type g struct {
	t     *rapid.T
	o     Options
	byRet map[parser.ValueType][]fn
	aggs  []string
	genAt bool
}

var rangeDependentFns = map[string]bool{"start": true, "end": true, "range": true, "step": true}

// date functions have an optional vector argument and default to vector(time()).
var dateFns = map[string]bool{"days_in_month": true, "day_of_month": true, "day_of_week": true, "day_of_year": true, "hour": true, "minute": true, "month": true, "year": true}

func newG(t *rapid.T, o Options) *g {
	if len(o.Metrics) == 0 {
		o.Metrics = []string{"m1", "m2", "m3"}
	}
	if len(o.Labels) == 0 {
		o.Labels = []string{"a", "b", "job", "le"}
	}
	if len(o.Values) == 0 {
		o.Values = []string{"a", "b", "ab", "0", "1", "x y"}
	}
	if o.MaxDepth == 0 {
		o.MaxDepth = 4
	}
	if len(o.Durations) == 0 {
		o.Durations = []string{"30s", "1m", "5m", "10m", "1h", "90s", "1m30s"}
	}
	genAt := false
	if len(o.AtTimestamps) == 0 {
		o.AtTimestamps = []string{"0", "10", "100.5", "1e3", "-5"}
		genAt = true
	}
	gg := &g{t: t, o: o, byRet: map[parser.ValueType][]fn{}, genAt: genAt}
	excl := map[string]bool{}
	for _, n := range o.ExcludeFunctions {
		excl[n] = true
	}
	only := map[string]bool{}
	for _, n := range o.OnlyFunctions {
		only[n] = true
	}
	names := make([]string, 0, len(parser.Functions))
	for n := range parser.Functions {
		names = append(names, n)
	}
	sort.Strings(names)
	for _, n := range names {
		f := parser.Functions[n]
		if excl[n] || (len(only) > 0 && !only[n]) {
			continue
		}
		if f.Experimental && o.NoExperimental {
			continue
		}
		if o.NoQueryRangeDependent && rangeDependentFns[n] {
			continue
		}
		if o.NoTimeFunctions && n == "time" {
			continue
		}
		gg.byRet[f.ReturnType] = append(gg.byRet[f.ReturnType], fn{name: n, args: f.ArgTypes, variadic: f.Variadic, ret: f.ReturnType})
	}
	gg.aggs = []string{"sum", "avg", "count", "min", "max", "group", "stddev", "stdvar", "topk", "bottomk", "count_values", "quantile"}
	if !o.NoExperimental {
		gg.aggs = append(gg.aggs, "limitk", "limit_ratio")
	}
	if len(o.ExcludeAggregations) > 0 {
		exa := map[string]bool{}
		for _, n := range o.ExcludeAggregations {
			exa[n] = true
		}
		kept := make([]string, 0, len(gg.aggs))
		for _, a := range gg.aggs {
			if !exa[a] {
				kept = append(kept, a)
			}
		}
		if len(kept) > 0 {
			gg.aggs = kept
		}
	}
	return gg
}

// n draws an int in [0, n).
func (g *g) n(label string, n int) int { return rapid.IntRange(0, n-1).Draw(g.t, label) }

// w draws an index according to integer weights.
func (g *g) w(label string, weights ...int) int {
	tot := 0
	for _, x := range weights {
		tot += x
	}
	r := rapid.IntRange(0, tot-1).Draw(g.t, label)
	for i, x := range weights {
		if r < x {
			return i
		}
		r -= x
	}
	return len(weights) - 1
}

func (g *g) oneOf(label string, xs []string) string {
	return xs[rapid.IntRange(0, len(xs)-1).Draw(g.t, label)]
}

func (g *g) chance(label string, outOf int) bool { return g.n(label, outOf) == 0 }

// kw spells a keyword, occasionally in upper case in exotic mode (keywords are case insensitive).
func (g *g) kw(s string) string {
	if g.o.Exotic && g.chance("kwcase", 8) {
		return strings.ToUpper(s)
	}
	return s
}

// sp returns a separator: one blank, or in exotic mode sometimes more / newlines / a comment.
func (g *g) sp() string {
	if !g.o.Exotic {
		return " "
	}
	switch g.w("sp", 20, 2, 2, 1, 1) {
	case 1:
		return "  "
	case 2:
		return "\n"
	case 3:
		return "\t "
	case 4:
		return " # c\n"
	}
	return " "
}

// osp is an optional separator (may be empty).
func (g *g) osp() string {
	if !g.o.Exotic || !g.chance("osp", 6) {
		return ""
	}
	return g.sp()
}

var exoticMetricNames = []string{"sum", "avg", "by", "offset", "start", "end", "step", "range", "fill", "fill_left", "bool_x", "a:b", ":rec", "group", "limitk", "anchored", "smoothed", "min_of", "Inf_x", "nan_x", "x1"}
var utf8Names = []string{"foo.bar", "with space", "ü", "日本", "a-b", "0start", "q\"uote", "back\\slash", "new\nline", "{brace}"}
var exoticLabelNames = []string{"on", "by", "bool", "ignoring", "group_left", "offset", "sum", "atan2", "start", "step", "__name__x", "_"}

func (g *g) metric() (name string, quoted bool) {
	if g.o.Exotic {
		switch g.w("mclass", 6, 2, 2) {
		case 1:
			return g.oneOf("mkw", exoticMetricNames), false
		case 2:
			return g.oneOf("mutf8", utf8Names), true
		}
	}
	return g.oneOf("metric", g.o.Metrics), false
}

// labelName returns a label name as it must be written in a by/on/ignoring list or matcher.
func (g *g) labelName() string {
	if g.o.Exotic {
		switch g.w("lclass", 6, 2, 2, 1) {
		case 1:
			return g.oneOf("lkw", exoticLabelNames)
		case 2:
			return g.quote(g.oneOf("lutf8", utf8Names))
		case 3:
			// a legacy-valid name written in quotes
			return g.quote(g.oneOf("lq", g.o.Labels))
		}
	}
	return g.oneOf("label", g.o.Labels)
}

var exoticStrings = []string{"", "a\"b", "a'b", "back\\slash", "tab\there", "nl\nx", "ü", "日本語", "\x00", "é́", "{{x}}", "`", "$1", "\\d+", "a b  c", "\U0001F600", "\xff"}

func (g *g) rawString() string {
	if g.o.Exotic {
		switch g.w("sclass", 5, 4, 1) {
		case 1:
			return g.oneOf("sex", exoticStrings)
		case 2:
			return strings.Repeat(g.oneOf("slongpart", []string{"abcdefghij", "x y ", "ü"}), rapid.IntRange(8, 14).Draw(g.t, "slong"))
		}
	}
	return g.oneOf("value", g.o.Values)
}

// quote renders a Go/PromQL string literal; exotic mode also uses single quotes and raw strings.
func (g *g) quote(s string) string {
	if g.o.Exotic {
		switch g.w("qstyle", 6, 2, 2) {
		case 1:
			// single quoted: escape like a double quoted string, then swap the quote roles
			q := strconv.Quote(s)
			q = q[1 : len(q)-1]
			q = strings.ReplaceAll(q, `\"`, `"`)
			q = strings.ReplaceAll(q, `'`, `\'`)
			return "'" + q + "'"
		case 2:
			if !strings.ContainsAny(s, "`\r") && isValidUTF8NoCtl(s) {
				return "`" + s + "`"
			}
		}
	}
	return strconv.Quote(s)
}

func isValidUTF8NoCtl(s string) bool {
	for _, r := range s {
		if r == 0xFFFD || r == 0 {
			return false
		}
	}
	return true
}

func (g *g) str() string { return g.quote(g.rawString()) }

var regexes = []string{".*", ".+", "a|b", "a.*", "[ab]+", "", "(a|ab)", "x y", "1|0", "^a$", "(?i)A", "\\d+"}

func (g *g) matcher() string {
	name := g.labelName()
	op := []string{"=", "!=", "=~", "!~"}[g.w("mop", 5, 2, 2, 1)]
	var val string
	if op == "=~" || op == "!~" {
		val = g.oneOf("regex", regexes)
	} else {
		val = g.rawString()
	}
	return name + g.osp() + op + g.osp() + g.quote(val)
}

// bareSelector renders name{matchers} without modifiers.
func (g *g) bareSelector() string {
	name, quoted := g.metric()
	nm := g.w("nmatch", 5, 4, 2, 1)
	var ms []string
	for i := 0; i < nm; i++ {
		ms = append(ms, g.matcher())
	}
	inBraces := quoted
	if !quoted && g.o.Exotic {
		switch g.w("nameform", 8, 1, 1) {
		case 1:
			// {"name", ...}
			inBraces = true
		case 2:
			// {__name__="name", ...}
			ms = append(ms, "__name__="+g.quote(name))
			name = ""
		}
	}
	if inBraces {
		pos := 0
		if len(ms) > 0 {
			pos = g.n("namepos", len(ms)+1)
		}
		ms = append(ms[:pos], append([]string{g.quote(name)}, ms[pos:]...)...)
		name = ""
	}
	if len(ms) == 0 {
		if g.o.Exotic && name != "" && g.chance("emptybraces", 10) {
			return name + "{}"
		}
		return name
	}
	tail := ""
	if g.o.Exotic && g.chance("trailcomma", 10) {
		tail = ","
	}
	return name + "{" + g.osp() + strings.Join(ms, ","+g.osp()) + tail + g.osp() + "}"
}

func (g *g) duration() string {
	if g.o.Exotic {
		switch g.w("durform", 6, 2, 1, 1) {
		case 1:
			// a plain number is a duration in seconds
			return g.oneOf("durnum", []string{"300", "1", "0.5", "1.5", "60", "1e2", "0x10", "1.001", "2.0005"})
		case 2:
			return g.oneOf("durodd", []string{"1ms", "1s1ms", "1h1ms", "2m3s4ms", "1y", "1w2d", "1d12h", "999ms", "1s7ms", "59m59s999ms"})
		case 3:
			return g.oneOf("durbig", []string{"100y", "292y", "10000d", "1y1w1d1h1m1s1ms"})
		}
	}
	return g.oneOf("dur", g.o.Durations)
}

// durationExpr renders an arithmetic duration expression (needs ExperimentalDurationExpr).
func (g *g) durationExpr(d int) string {
	if d <= 0 {
		return g.duration()
	}
	rd := !g.o.NoQueryRangeDependent
	switch g.w("dexpr", 3, 4, 2, 2, 2, 2) {
	case 0:
		return g.duration()
	case 1:
		op := g.oneOf("dop", []string{"+", "-", "*", "/", "%", "^"})
		r := g.durationExpr(d - 1)
		if op == "/" || op == "%" {
			// literal zero divisors are rejected by the grammar
			r = g.oneOf("ddiv", []string{"2", "3", "1m", "0.5"})
		}
		return g.durationExpr(d-1) + " " + op + " " + r
	case 2:
		return "(" + g.durationExpr(d-1) + ")"
	case 3:
		return "-" + g.durationExpr(d-1)
	case 4:
		if rd {
			return g.oneOf("dstep", []string{"step()", "range()"})
		}
		return g.duration()
	default:
		return g.oneOf("dminmax", []string{"min_of", "max_of"}) + "(" + g.durationExpr(d-1) + ", " + g.durationExpr(d-1) + ")"
	}
}

// posDurationExpr renders a duration expression whose value is positive whatever the
// operands drawn (ranges and subquery steps must be > 0 at evaluation time).
func (g *g) posDurationExpr() string {
	a, b := g.oneOf("dur", g.o.Durations), g.oneOf("dur", g.o.Durations)
	rd := !g.o.NoQueryRangeDependent
	switch g.w("pdexpr", 3, 2, 2, 2, 2, 1, 1, boolW(rd, 2)) {
	case 0:
		return a + " + " + b
	case 1:
		return a + " * " + g.oneOf("dmul", []string{"2", "3", "1.5"})
	case 2:
		return "(" + a + " + " + b + ")"
	case 3:
		return g.oneOf("dminmax", []string{"min_of", "max_of"}) + "(" + a + ", " + b + ")"
	case 4:
		return a + " / " + g.oneOf("ddivn", []string{"2", "4"})
	case 5:
		return "(" + a + ")"
	case 6:
		return "2 ^ 3 * " + a
	default:
		return g.oneOf("dstepfn", []string{"step()", "range()"}) + " + " + a
	}
}

// rangeDur is what goes between [ ] (must be positive).
func (g *g) rangeDur() string {
	if !g.o.NoDurationExpr && g.chance("rangeexpr", 6) {
		if g.o.Exotic && g.chance("rangeany", 2) {
			// may be rejected (a literal <= 0) or be non-positive at evaluation time
			return g.durationExpr(2)
		}
		return g.posDurationExpr()
	}
	return g.duration()
}

func (g *g) offsetDur() string {
	if !g.o.NoDurationExpr && g.chance("offexpr", 6) {
		return g.durationExpr(2)
	}
	d := g.duration()
	if !g.o.NoNegativeOffset && g.chance("negoff", 4) {
		return "-" + d
	}
	if g.o.Exotic && g.chance("plusoff", 12) {
		return "+" + d
	}
	return d
}

// atTimestamp draws the literal of an @ modifier: from the vocabulary, or (when the caller gave
// no vocabulary) composed of a sign, a small whole number of seconds and a millisecond fraction,
// so that every sign / whole / fraction combination around zero and around a second is reached.
func (g *g) atTimestamp() string {
	if !g.genAt || !g.chance("atcomposed", 2) {
		return g.oneOf("atts", g.o.AtTimestamps)
	}
	return g.oneOf("atsign", []string{"", "", "-"}) + g.oneOf("atwhole", []string{"0", "0", "1", "2", "59", "60", "1000", "1600000000"}) +
		g.oneOf("atfrac", []string{"", "", ".5", ".001", ".999", ".25", ".010", ".100"})
}

// modifiers renders offset / @ / anchored / smoothed suffixes in a random legal order.
func (g *g) modifiers(isMatrix bool) string {
	var parts []string
	if !g.o.NoOffset && g.chance("hasoffset", 4) {
		parts = append(parts, g.kw("offset")+g.sp()+g.offsetDur())
	}
	if !g.o.NoAt && g.chance("hasat", 5) {
		var at string
		if !g.o.NoQueryRangeDependent && g.chance("atpre", 3) {
			at = g.oneOf("atfn", []string{"start()", "end()"})
		} else {
			at = g.atTimestamp()
			if g.o.Exotic && g.chance("atexotic", 4) {
				at = g.oneOf("attsx", []string{"1.0005", "1e10", "0x10", "+3", "-0", "1234567.891", "5m", "9.2e15"})
			}
		}
		parts = append(parts, "@"+g.osp()+at)
	}
	if !g.o.NoExtendedRange && g.chance("hasext", 8) {
		parts = append(parts, g.oneOf("ext", []string{"anchored", "smoothed"}))
	}
	// random order
	for i := len(parts) - 1; i > 0; i-- {
		j := g.n("modperm", i+1)
		parts[i], parts[j] = parts[j], parts[i]
	}
	if len(parts) == 0 {
		return ""
	}
	return " " + strings.Join(parts, g.sp())
}

func (g *g) selector() string { return g.bareSelector() + g.modifiers(false) }

func (g *g) matrix(d int) string {
	sub := !g.o.NoSubquery && d > 0 && g.chance("subq", 3)
	if !sub {
		sel := g.bareSelector()
		if g.o.Exotic && !g.o.NoExtendedRange && g.chance("extbefore", 12) {
			// anchored / smoothed may also precede the range
			sel += " " + g.oneOf("ext", []string{"anchored", "smoothed"})
			return sel + "[" + g.rangeDur() + "]"
		}
		return sel + "[" + g.osp() + g.rangeDur() + g.osp() + "]" + g.modifiers(true)
	}
	inner := g.vector(d - 1)
	if needsParenForPostfix(inner) || g.chance("subparen", 4) {
		inner = "(" + inner + ")"
	}
	step := ""
	if g.o.NoQueryRangeDependent || g.chance("hasstep", 2) {
		step = g.rangeDur()
	}
	mods := ""
	var parts []string
	if !g.o.NoOffset && g.chance("subhasoffset", 4) {
		parts = append(parts, g.kw("offset")+" "+g.offsetDur())
	}
	if !g.o.NoAt && g.chance("subhasat", 5) {
		if !g.o.NoQueryRangeDependent && g.chance("subatpre", 3) {
			parts = append(parts, "@ "+g.oneOf("atfn", []string{"start()", "end()"}))
		} else {
			parts = append(parts, "@ "+g.atTimestamp())
		}
	}
	if len(parts) == 2 && g.chance("subperm", 2) {
		parts[0], parts[1] = parts[1], parts[0]
	}
	if len(parts) > 0 {
		mods = " " + strings.Join(parts, " ")
	}
	return inner + "[" + g.rangeDur() + ":" + step + "]" + mods
}

// needsParenForPostfix reports whether s must be parenthesised before a postfix
// ([..], offset) is attached: conservatively, anything that is not a single primary.
func needsParenForPostfix(s string) bool {
	depth := 0
	inStr := byte(0)
	for i := 0; i < len(s); i++ {
		c := s[i]
		if inStr != 0 {
			if c == '\\' && inStr != '`' {
				i++
				continue
			}
			if c == inStr {
				inStr = 0
			}
			continue
		}
		switch c {
		case '"', '\'', '`':
			inStr = c
		case '(', '{', '[':
			depth++
		case ')', '}', ']':
			depth--
		case ' ', '\n', '\t', '+', '-', '*', '/', '%', '^', '<', '>', '=', '!', '#':
			if depth == 0 {
				return true
			}
		}
	}
	return false
}

var specialNumbers = []string{"NaN", "Inf", "-Inf", "+Inf", "nan", "inf"}
var exoticNumbers = []string{"0x1F", "0X_1f", "1e3", "1E-3", "1_000", "1e+21", "1e-7", ".5", "5.", "0.1", "123456789.125", "9007199254740993", "1e300", "4.9e-324", "-0", "017", "1e22", "0.000001", "18446744073709551616", "0x8000000000000000"}

func (g *g) number() string {
	switch g.w("numclass", 8, 3, boolW(!g.o.NoSpecialFloats, 1), boolW(g.o.Exotic, 4), boolW(g.o.Exotic, 2)) {
	case 1:
		return strconv.FormatFloat(float64(rapid.IntRange(-2000, 2000).Draw(g.t, "numfrac"))/8, 'f', -1, 64)
	case 2:
		return g.oneOf("numspecial", specialNumbers)
	case 3:
		return g.oneOf("numexotic", exoticNumbers)
	case 4:
		// a duration literal is a number of seconds
		return g.duration()
	}
	return strconv.Itoa(rapid.IntRange(0, 10).Draw(g.t, "numsmall"))
}

func boolW(b bool, w int) int {
	if b {
		return w
	}
	return 0
}

// ratio is a number suitable as quantile / limit_ratio parameter.
func (g *g) ratio() string {
	return g.oneOf("ratio", []string{"0", "0.1", "0.25", "0.5", "0.9", "0.99", "1", "-0.5", "1.5"})
}

func (g *g) scalar(d int) string {
	if d <= 0 {
		return g.number()
	}
	switch g.w("scalarkind", 5, 3, 3, 1, 1) {
	case 1:
		// binary between scalars; comparisons need bool
		l, r := g.scalarOperand(d-1), g.scalarOperand(d-1)
		op := g.oneOf("sop", []string{"+", "-", "*", "/", "%", "^", "atan2", "==", "!=", "<", ">", "<=", ">="})
		switch op {
		case "==", "!=", "<", ">", "<=", ">=":
			return l + " " + op + g.sp() + g.kw("bool") + " " + r
		case "atan2":
			op = g.kw(op)
		}
		return l + g.sp() + op + g.sp() + r
	case 2:
		if fs := g.byRet[parser.ValueTypeScalar]; len(fs) > 0 {
			return g.call(fs[g.n("sfn", len(fs))], d)
		}
		return g.number()
	case 3:
		return "(" + g.osp() + g.scalar(d-1) + g.osp() + ")"
	case 4:
		return g.oneOf("unary", []string{"-", "+", "- ", "-"}) + g.unaryOperand(g.scalar(d-1))
	}
	return g.number()
}

func (g *g) scalarOperand(d int) string {
	s := g.scalar(d)
	if needsParenForPostfix(s) && g.chance("sparen", 2) {
		return "(" + s + ")"
	}
	return s
}

func (g *g) unaryOperand(s string) string {
	if needsParenForPostfix(s) && !g.chance("unaryloose", 3) {
		return "(" + s + ")"
	}
	return s
}

func (g *g) labelList() string {
	n := g.w("nlist", 2, 5, 3, 1)
	seen := map[string]bool{}
	var ls []string
	for i := 0; i < n; i++ {
		l := g.labelName()
		if seen[l] {
			continue
		}
		seen[l] = true
		ls = append(ls, l)
	}
	tail := ""
	if g.o.Exotic && len(ls) > 0 && g.chance("listtrail", 10) {
		tail = ","
	}
	return "(" + g.osp() + strings.Join(ls, ","+g.osp()) + tail + ")"
}

func (g *g) aggregation(d int) string {
	op := g.oneOf("agg", g.aggs)
	var args string
	inner := g.vector(d - 1)
	switch op {
	case "topk", "bottomk", "limitk":
		k := strconv.Itoa(rapid.IntRange(0, 5).Draw(g.t, "k"))
		if g.chance("kexpr", 6) {
			k = g.scalar(min(d-1, 1))
		}
		args = k + "," + g.sp() + inner
	case "quantile", "limit_ratio":
		p := g.ratio()
		if g.chance("pexpr", 8) {
			p = g.scalar(min(d-1, 1))
		}
		args = p + ", " + inner
	case "count_values":
		args = g.quote(g.oneOf("cvlabel", append([]string{"value", "v"}, g.o.Labels...))) + ", " + inner
	default:
		args = inner
	}
	op = g.kw(op)
	switch g.w("aggmod", 3, 2, 2, 1, 1) {
	case 1:
		return op + " " + g.kw("by") + g.osp() + g.labelList() + g.osp() + "(" + args + ")"
	case 2:
		return op + " " + g.kw("without") + " " + g.labelList() + " (" + args + ")"
	case 3:
		return op + "(" + args + ") " + g.kw("by") + " " + g.labelList()
	case 4:
		return op + "(" + args + ")" + g.sp() + g.kw("without") + " " + g.labelList()
	}
	return op + g.osp() + "(" + g.osp() + args + g.osp() + ")"
}

func (g *g) fillValue() string {
	v := g.oneOf("fillv", []string{"0", "1", "-1", "0.5", "NaN", "Inf", "-Inf", "1e3", "5m"})
	if g.o.NoSpecialFloats && (strings.Contains(v, "NaN") || strings.Contains(v, "Inf")) {
		v = "0"
	}
	return "(" + v + ")"
}

func (g *g) vectorOperand(d int) string {
	s := g.vector(d)
	if needsParenForPostfix(s) && g.chance("vparen", 2) {
		return "(" + s + ")"
	}
	return s
}

func (g *g) binary(d int) string {
	kind := g.w("binkind", 5, 3, 3) // vec-vec, vec-scalar, scalar-vec
	arith := []string{"+", "-", "*", "/", "%", "^", "atan2"}
	cmp := []string{"==", "!=", "<", ">", "<=", ">="}
	set := []string{"and", "or", "unless"}
	trim := []string{"</", ">/"}
	var op string
	switch g.w("opclass", 5, 4, boolW(kind == 0, 3), 1) {
	case 0:
		op = g.oneOf("arith", arith)
	case 1:
		op = g.oneOf("cmp", cmp)
	case 2:
		op = g.oneOf("set", set)
	default:
		op = g.oneOf("trim", trim)
	}
	isCmp := strings.ContainsAny(op[:1], "=!<>") && op != "</" && op != ">/"
	isSet := op == "and" || op == "or" || op == "unless"
	mod := ""
	if isCmp && g.chance("bool", 3) {
		mod += " " + g.kw("bool")
	}
	var l, r string
	switch kind {
	case 0:
		l, r = g.vectorOperand(d-1), g.vectorOperand(d-1)
		matching := g.w("matching", 5, 3, 3)
		var onLabels string
		if matching > 0 {
			onLabels = g.labelList()
			mod += " " + g.kw([]string{"", "on", "ignoring"}[matching]) + g.osp() + onLabels
		}
		if !isSet && matching > 0 && g.chance("group", 2) {
			side := g.oneOf("groupside", []string{"group_left", "group_right"})
			mod += " " + g.kw(side)
			switch g.w("include", 3, 3) {
			case 1:
				// include labels must not repeat on() labels
				var inc []string
				for _, l := range g.o.Labels {
					if !strings.Contains(onLabels, l) && g.chance("incl", 2) {
						inc = append(inc, l)
					}
				}
				mod += g.osp() + "(" + strings.Join(inc, ", ") + ")"
			}
		}
		if !isSet && !g.o.NoFill && g.chance("fill", 4) {
			switch g.w("fillkind", 3, 2, 2, 2, 1) {
			case 0:
				mod += " " + g.kw("fill") + g.osp() + g.fillValue()
			case 1:
				mod += " fill_left" + g.fillValue()
			case 2:
				mod += " fill_right " + g.fillValue()
			case 3:
				mod += " fill_left" + g.fillValue() + " fill_right" + g.fillValue()
			default:
				mod += " fill_right" + g.fillValue() + " fill_left" + g.fillValue()
			}
		}
	case 1:
		l, r = g.vectorOperand(d-1), g.scalarOperand(min(d-1, 2))
	default:
		l, r = g.scalarOperand(min(d-1, 2)), g.vectorOperand(d-1)
	}
	if isSet || op == "atan2" {
		op = g.kw(op)
	}
	return l + g.sp() + op + mod + g.sp() + r
}

func (g *g) arg(ty parser.ValueType, d int) string {
	switch ty {
	case parser.ValueTypeVector:
		return g.vector(d)
	case parser.ValueTypeScalar:
		return g.scalar(min(d, 2))
	case parser.ValueTypeMatrix:
		return g.matrix(d)
	case parser.ValueTypeString:
		return g.str()
	}
	return g.number()
}

func (g *g) call(f fn, d int) string {
	d--
	if d < 0 {
		d = 0
	}
	switch f.name {
	case "label_replace":
		return fmt.Sprintf("label_replace(%s, %s, %s, %s, %s)", g.vector(d), g.quote(g.oneOf("dst", append([]string{"dst"}, g.o.Labels...))),
			g.quote(g.oneOf("repl", []string{"$1", "x", "$1-$2", ""})), g.quote(g.oneOf("src", g.o.Labels)), g.quote(g.oneOf("lrre", []string{"(.*)", "(a)(.*)", ".*", "x"})))
	case "label_join":
		n := g.n("njoin", 3)
		args := []string{g.vector(d), g.quote(g.oneOf("dst", append([]string{"dst"}, g.o.Labels...))), g.quote(g.oneOf("sep", []string{",", "", "-"}))}
		for i := 0; i < n; i++ {
			args = append(args, g.quote(g.oneOf("src", g.o.Labels)))
		}
		return "label_join(" + strings.Join(args, ", ") + ")"
	case "sort_by_label", "sort_by_label_desc":
		n := g.n("nsort", 3)
		args := []string{g.vector(d)}
		for i := 0; i < n; i++ {
			args = append(args, g.quote(g.oneOf("src", g.o.Labels)))
		}
		return f.name + "(" + strings.Join(args, ", ") + ")"
	case "info":
		if g.chance("info1", 2) {
			return "info(" + g.vector(d) + ")"
		}
		var ms []string
		for i, n := 0, 1+g.n("ninfo", 2); i < n; i++ {
			ms = append(ms, g.oneOf("label", g.o.Labels)+g.oneOf("iop", []string{"=", "!=", "=~"})+g.quote(g.oneOf("value", g.o.Values)))
		}
		return "info(" + g.vector(d) + ", {" + strings.Join(ms, ",") + "})"
	case "histogram_quantile":
		return "histogram_quantile(" + g.pick2("hq", g.ratio(), g.scalar(min(d, 1))) + ", " + g.vector(d) + ")"
	case "histogram_fraction":
		return "histogram_fraction(" + g.number() + ", " + g.number() + ", " + g.vector(d) + ")"
	case "histogram_quantiles":
		n := 1 + g.n("nq", 3)
		args := []string{g.vector(d), g.quote(g.oneOf("qlabel", []string{"quantile", "q"}))}
		for i := 0; i < n; i++ {
			args = append(args, g.ratio())
		}
		return "histogram_quantiles(" + strings.Join(args, ", ") + ")"
	case "quantile_over_time":
		return "quantile_over_time(" + g.ratio() + ", " + g.matrix(d) + ")"
	case "double_exponential_smoothing":
		return "double_exponential_smoothing(" + g.matrix(d) + ", " + g.oneOf("sf", []string{"0.1", "0.5", "0.9"}) + ", " + g.oneOf("tf", []string{"0.1", "0.5", "0.9"}) + ")"
	case "start", "end", "range", "step", "max_of", "min_of":
		// lexed as keywords; still plain calls
	}
	if dateFns[f.name] && (g.o.NoTimeFunctions || !g.chance("datenoarg", 3)) {
		return f.name + "(" + g.vector(d) + ")"
	}
	nargs := len(f.args)
	switch {
	case f.variadic > 0:
		// last f.variadic... arguments are optional
		nargs = len(f.args) - 1 + g.n("nvar", f.variadic+1)
		if nargs < len(f.args)-1 {
			nargs = len(f.args) - 1
		}
	case f.variadic < 0:
		nargs = len(f.args) - 1 + g.n("nvar", 3)
	}
	var args []string
	for i := 0; i < nargs; i++ {
		ti := i
		if ti >= len(f.args) {
			ti = len(f.args) - 1
		}
		args = append(args, g.arg(f.args[ti], d))
	}
	return f.name + g.osp() + "(" + g.osp() + strings.Join(args, ","+g.sp()) + ")"
}

func (g *g) pick2(label, a, b string) string {
	if g.chance(label, 5) {
		return b
	}
	return a
}

func (g *g) vector(d int) string {
	if d <= 0 {
		return g.selector()
	}
	switch g.w("veckind", 4, 4, 5, 5, 1, 1) {
	case 1:
		return g.aggregation(d)
	case 2:
		return g.binary(d)
	case 3:
		if fs := g.byRet[parser.ValueTypeVector]; len(fs) > 0 {
			return g.call(fs[g.n("vfn", len(fs))], d)
		}
		return g.selector()
	case 4:
		return "(" + g.osp() + g.vector(d-1) + g.osp() + ")"
	case 5:
		return g.oneOf("unary", []string{"-", "+", "- ", "-"}) + g.unaryOperand(g.vector(d-1))
	}
	return g.selector()
}
