// Package gen holds the generators shared by the property checks. Every generated
// value is a plain JSON-serialisable struct (floats are carried as bit patterns) so a
// failing case can be written out and replayed without rapid.
package gen

import (
	"math"
	"sort"

	"github.com/prometheus/prometheus/model/histogram"
	"github.com/prometheus/prometheus/model/labels"
	"pgregory.net/rapid"
)

const StaleNaNBits uint64 = 0x7ff0000000000002
const NormalNaNBits uint64 = 0x7ff8000000000001

var specialFloatBits = []uint64{
	0, 0x8000000000000000, // +0 -0
	0x7ff0000000000000, 0xfff0000000000000, // +Inf -Inf
	NormalNaNBits, StaleNaNBits, 0x7ff8000000000000, 0xfff8000000000001, 0x7ff0000000000001, 0x7fffffffffffffff,
	1, 0x000fffffffffffff, 0x0010000000000000, // denormals, min normal
	0x7fefffffffffffff, 0xffefffffffffffff, // max
	0x3ff0000000000000, 0xbff0000000000000, // 1 -1
	0x4340000000000000, 0x4340000000000001, 0x433fffffffffffff, // 2^53 neighbourhood
}

// FloatBits draws a float64 bit pattern with boosted special classes.
func FloatBits() *rapid.Generator[uint64] {
	return rapid.Custom(func(t *rapid.T) uint64 {
		switch rapid.IntRange(0, 9).Draw(t, "fclass") {
		case 0:
			return rapid.SampledFrom(specialFloatBits).Draw(t, "special")
		case 1, 2:
			return math.Float64bits(float64(rapid.IntRange(-1000, 1000).Draw(t, "smallint")))
		case 3:
			return math.Float64bits(float64(rapid.Int64().Draw(t, "int")))
		case 4:
			// share leading/trailing zero windows: few mantissa bits
			m := rapid.Uint64Range(0, 0xff).Draw(t, "mant") << rapid.UintRange(0, 44).Draw(t, "shift")
			e := rapid.Uint64Range(1000, 1050).Draw(t, "exp")
			return e<<52 | (m & 0x000fffffffffffff)
		case 5:
			return math.Float64bits(rapid.Float64().Draw(t, "f"))
		case 6:
			return math.Float64bits(float64(rapid.IntRange(-100000, 100000).Draw(t, "cents")) / 100)
		default:
			return rapid.Uint64().Draw(t, "rawbits")
		}
	})
}

// FiniteFloatBits draws bit patterns of finite, non-NaN floats.
func FiniteFloatBits() *rapid.Generator[uint64] {
	return rapid.Custom(func(t *rapid.T) uint64 {
		b := FloatBits().Draw(t, "fb")
		f := math.Float64frombits(b)
		if math.IsNaN(f) || math.IsInf(f, 0) {
			return math.Float64bits(float64(rapid.IntRange(-1000, 1000).Draw(t, "fallback")))
		}
		return b
	})
}

func F(b uint64) float64 { return math.Float64frombits(b) }
func B(f float64) uint64 { return math.Float64bits(f) }

// Lset is a label set as a list of (name,value) pairs.
type Lset [][2]string

// Labels converts to labels.Labels (sorted by name).
func (l Lset) Labels() labels.Labels {
	ls := make([]labels.Label, 0, len(l))
	for _, p := range l {
		ls = append(ls, labels.Label{Name: p[0], Value: p[1]})
	}
	return labels.New(ls...)
}

func (l Lset) Map() map[string]string {
	m := map[string]string{}
	for _, p := range l {
		m[p[0]] = p[1]
	}
	return m
}

// Key is a canonical string for map keys.
func (l Lset) Key() string {
	c := append(Lset(nil), l...)
	sort.Slice(c, func(i, j int) bool { return c[i][0] < c[j][0] })
	s := ""
	for _, p := range c {
		s += p[0] + "\xff" + p[1] + "\xfe"
	}
	return s
}

func FromLabels(ls labels.Labels) Lset {
	var out Lset
	ls.Range(func(l labels.Label) { out = append(out, [2]string{l.Name, l.Value}) })
	return out
}

var smallNames = []string{"__name__", "a", "b", "job", "instance", "le", "zz"}
var smallValues = []string{"", "a", "b", "ab", "m1", "m2", "x y", "ü", "0", "1"}

// SmallLset draws a label set over small alphabets (distinct non-empty names, non-empty
// values) so that series collide and share symbols. withName forces a __name__.
func SmallLset(withName bool, maxLabels int) *rapid.Generator[Lset] {
	return rapid.Custom(func(t *rapid.T) Lset {
		var out Lset
		used := map[string]bool{}
		if withName {
			out = append(out, [2]string{"__name__", rapid.SampledFrom([]string{"m1", "m2", "m3"}).Draw(t, "metric")})
			used["__name__"] = true
		}
		n := rapid.IntRange(0, maxLabels).Draw(t, "nlabels")
		for i := 0; i < n; i++ {
			name := rapid.SampledFrom(smallNames[1:]).Draw(t, "lname")
			if used[name] {
				continue
			}
			used[name] = true
			val := rapid.SampledFrom(smallValues[1:]).Draw(t, "lvalue")
			out = append(out, [2]string{name, val})
		}
		sort.Slice(out, func(i, j int) bool { return out[i][0] < out[j][0] })
		return out
	})
}

// AnyString draws short strings incl. UTF-8, separators and occasionally long ones.
func AnyString() *rapid.Generator[string] {
	return rapid.Custom(func(t *rapid.T) string {
		switch rapid.IntRange(0, 7).Draw(t, "sclass") {
		case 0:
			return ""
		case 1:
			return rapid.SampledFrom([]string{"a", "b", "__name__", "le", "\xff", "\xfe", "a\x00b", "ü", "日本", "x\ny", "\"q\"", "\\"}).Draw(t, "sconst")
		case 2:
			n := rapid.IntRange(120, 300).Draw(t, "slen")
			b := make([]byte, n)
			for i := range b {
				b[i] = byte('a' + i%26)
			}
			return string(b)
		case 3:
			return rapid.String().Draw(t, "sany")
		default:
			return rapid.StringMatching(`[a-zA-Z_][a-zA-Z0-9_]{0,8}`).Draw(t, "sident")
		}
	})
}

// AnyLset draws label sets with arbitrary (distinct) names and arbitrary values,
// including the empty set; names are distinct because every labels constructor
// requires that.
func AnyLset(max int) *rapid.Generator[Lset] {
	return rapid.Custom(func(t *rapid.T) Lset {
		n := rapid.IntRange(0, max).Draw(t, "nl")
		used := map[string]bool{}
		var out Lset
		for i := 0; i < n; i++ {
			name := AnyString().Draw(t, "n")
			if used[name] {
				continue
			}
			used[name] = true
			out = append(out, [2]string{name, AnyString().Draw(t, "v")})
		}
		sort.Slice(out, func(i, j int) bool { return out[i][0] < out[j][0] })
		return out
	})
}

// Span mirrors histogram.Span.
type Span struct {
	Off int32
	Len uint32
}

// Hist is a serialisable native histogram (integer or float flavour).
// Integer flavour: ZC/Count are counts, PB/NB are deltas.
// Float flavour: ZC/Count and PB/NB are float64 bit patterns of absolute counts.
type Hist struct {
	Float  bool
	Hint   uint8
	Schema int32
	ZT     uint64
	ZC     uint64
	Count  uint64
	Sum    uint64
	PS, NS []Span
	PB, NB []int64
	CV     []uint64
}

func spansOut(s []Span) []histogram.Span {
	if len(s) == 0 {
		return nil
	}
	o := make([]histogram.Span, len(s))
	for i, x := range s {
		o[i] = histogram.Span{Offset: x.Off, Length: x.Len}
	}
	return o
}

func cvOut(c []uint64) []float64 {
	if c == nil {
		return nil
	}
	o := make([]float64, len(c))
	for i, x := range c {
		o[i] = F(x)
	}
	return o
}

// Int builds the integer histogram (must have Float==false).
func (h Hist) Int() *histogram.Histogram {
	o := &histogram.Histogram{
		CounterResetHint: histogram.CounterResetHint(h.Hint), Schema: h.Schema, ZeroThreshold: F(h.ZT), ZeroCount: h.ZC,
		Count: h.Count, Sum: F(h.Sum), PositiveSpans: spansOut(h.PS), NegativeSpans: spansOut(h.NS), CustomValues: cvOut(h.CV),
	}
	if len(h.PB) > 0 {
		o.PositiveBuckets = append([]int64(nil), h.PB...)
	}
	if len(h.NB) > 0 {
		o.NegativeBuckets = append([]int64(nil), h.NB...)
	}
	return o
}

// FloatH builds the float histogram; an integer-flavoured Hist is converted exactly.
func (h Hist) FloatH() *histogram.FloatHistogram {
	if !h.Float {
		return h.Int().ToFloat(nil)
	}
	o := &histogram.FloatHistogram{
		CounterResetHint: histogram.CounterResetHint(h.Hint), Schema: h.Schema, ZeroThreshold: F(h.ZT), ZeroCount: F(h.ZC),
		Count: F(h.Count), Sum: F(h.Sum), PositiveSpans: spansOut(h.PS), NegativeSpans: spansOut(h.NS), CustomValues: cvOut(h.CV),
	}
	for _, b := range h.PB {
		o.PositiveBuckets = append(o.PositiveBuckets, F(uint64(b)))
	}
	for _, b := range h.NB {
		o.NegativeBuckets = append(o.NegativeBuckets, F(uint64(b)))
	}
	return o
}

// HistOpts tunes the histogram generator.
type HistOpts struct {
	Float       bool
	AllowCustom bool
	AllowGauge  bool
	MaxBuckets  int   // per side, default 8
	MaxCount    int64 // per bucket, default 50
	Schema      *int32
	// Custom bounds to use when a custom-bucket histogram is drawn (nil: draw).
	Custom []uint64
	// FractionalCounts lets float histograms use non-integer counts.
	FractionalCounts bool
	NaNSum           bool
}

// side draws one side: absolute counts laid out into spans with random legal structure
// (gaps, explicit zero-count buckets, zero-length spans, zero-offset adjacent spans).
func side(t *rapid.T, label string, o HistOpts, startMin, startMax int32, maxIdx int32) ([]Span, []uint64) {
	maxB := o.MaxBuckets
	if maxB == 0 {
		maxB = 8
	}
	maxC := o.MaxCount
	if maxC == 0 {
		maxC = 50
	}
	nspans := rapid.IntRange(0, 3).Draw(t, label+"nspans")
	var spans []Span
	var counts []uint64
	pos := int32(0)
	budget := maxB
	for i := 0; i < nspans; i++ {
		var off int32
		if i == 0 {
			off = rapid.Int32Range(startMin, startMax).Draw(t, label+"start")
			pos = off
		} else {
			off = int32(rapid.SampledFrom([]int{0, 1, 1, 2, 3, 7}).Draw(t, label+"gap"))
			pos += off
		}
		l := rapid.IntRange(0, 4).Draw(t, label+"len")
		if l > budget {
			l = budget
		}
		if maxIdx >= 0 && int(pos)+l > int(maxIdx)+1 {
			l = int(maxIdx) + 1 - int(pos)
			if l < 0 {
				// cannot place this span at all
				pos -= off
				break
			}
		}
		budget -= l
		spans = append(spans, Span{Off: off, Len: uint32(l)})
		for j := 0; j < l; j++ {
			c := uint64(0)
			if rapid.IntRange(0, 5).Draw(t, label+"nz") > 0 {
				c = uint64(rapid.Int64Range(1, maxC).Draw(t, label+"cnt"))
			}
			counts = append(counts, c)
		}
		pos += int32(l)
	}
	return spans, counts
}

// Histogram draws a valid native histogram.
func Histogram(o HistOpts) *rapid.Generator[Hist] {
	return rapid.Custom(func(t *rapid.T) Hist {
		h := Hist{Float: o.Float}
		custom := o.AllowCustom && rapid.IntRange(0, 3).Draw(t, "custom") == 0
		if o.Schema != nil {
			custom = *o.Schema == histogram.CustomBucketsSchema
		}
		if o.AllowGauge && rapid.IntRange(0, 4).Draw(t, "gauge") == 0 {
			h.Hint = uint8(histogram.GaugeType)
		}
		var pc, nc []uint64
		if custom {
			h.Schema = histogram.CustomBucketsSchema
			if o.Custom != nil {
				h.CV = o.Custom
			} else {
				n := rapid.IntRange(0, 6).Draw(t, "ncv")
				v := float64(rapid.IntRange(-20, 5).Draw(t, "cv0"))
				h.CV = []uint64{}
				for i := 0; i < n; i++ {
					h.CV = append(h.CV, B(v))
					v += float64(rapid.IntRange(1, 40).Draw(t, "cvstep")) / 4
				}
			}
			h.PS, pc = side(t, "p", o, 0, 2, int32(len(h.CV)))
		} else {
			if o.Schema != nil {
				h.Schema = *o.Schema
			} else {
				h.Schema = rapid.Int32Range(-4, 8).Draw(t, "schema")
			}
			switch rapid.IntRange(0, 3).Draw(t, "ztclass") {
			case 0:
				h.ZT = 0
			case 1:
				h.ZT = B(math.Ldexp(1, -128))
			case 2:
				h.ZT = B(0.001)
			default:
				// a bucket boundary of the schema, so thresholds can coincide with buckets
				h.ZT = B(math.Ldexp(1, rapid.IntRange(-6, 2).Draw(t, "ztexp")))
			}
			if rapid.IntRange(0, 2).Draw(t, "haszero") > 0 {
				h.ZC = uint64(rapid.IntRange(0, 30).Draw(t, "zc"))
			}
			h.PS, pc = side(t, "p", o, -12, 12, -1)
			h.NS, nc = side(t, "n", o, -12, 12, -1)
		}
		total := h.ZC
		for _, c := range pc {
			total += c
		}
		for _, c := range nc {
			total += c
		}
		h.Count = total
		switch rapid.IntRange(0, 9).Draw(t, "sumclass") {
		case 0:
			h.Sum = 0
		case 1:
			if o.NaNSum {
				h.Sum = NormalNaNBits
				h.Count = total + uint64(rapid.IntRange(0, 3).Draw(t, "extra"))
			}
		default:
			h.Sum = B(float64(rapid.IntRange(-100000, 100000).Draw(t, "sum")) / 8)
		}
		if !o.Float {
			h.PB = deltas(pc)
			h.NB = deltas(nc)
			return h
		}
		scale := 1.0
		if o.FractionalCounts {
			scale = rapid.SampledFrom([]float64{1, 0.5, 0.25, 1.5, 0.1}).Draw(t, "cscale")
		}
		for _, c := range pc {
			h.PB = append(h.PB, int64(B(float64(c)*scale)))
		}
		for _, c := range nc {
			h.NB = append(h.NB, int64(B(float64(c)*scale)))
		}
		h.ZC = B(float64(h.ZC) * scale)
		h.Count = B(float64(h.Count) * scale)
		return h
	})
}

func deltas(abs []uint64) []int64 {
	var out []int64
	var prev int64
	for _, c := range abs {
		out = append(out, int64(c)-prev)
		prev = int64(c)
	}
	return out
}

// BucketMap returns index -> absolute count for one side of a float histogram,
// computed directly from spans (independent of the library's iterators). Empty
// buckets are omitted.
func BucketMap(spans []histogram.Span, buckets []float64) map[int32]float64 {
	m := map[int32]float64{}
	idx := int32(0)
	bi := 0
	for i, s := range spans {
		if i == 0 {
			idx = s.Offset
		} else {
			idx += s.Offset
		}
		for j := uint32(0); j < s.Length; j++ {
			if bi < len(buckets) && buckets[bi] != 0 {
				m[idx] += buckets[bi]
			}
			bi++
			idx++
		}
	}
	return m
}

// IntBucketMap is BucketMap for integer histograms (delta-encoded buckets).
func IntBucketMap(spans []histogram.Span, deltas []int64) map[int32]int64 {
	m := map[int32]int64{}
	idx := int32(0)
	bi := 0
	var cur int64
	for i, s := range spans {
		if i == 0 {
			idx = s.Offset
		} else {
			idx += s.Offset
		}
		for j := uint32(0); j < s.Length; j++ {
			if bi < len(deltas) {
				cur += deltas[bi]
				if cur != 0 {
					m[idx] += cur
				}
			}
			bi++
			idx++
		}
	}
	return m
}

func spansEq(a, b []histogram.Span) bool {
	if len(a) != len(b) {
		return false
	}
	for i := range a {
		if a[i] != b[i] {
			return false
		}
	}
	return true
}

func floatsBitEq(a, b []float64) bool {
	if len(a) != len(b) {
		return false
	}
	for i := range a {
		if B(a[i]) != B(b[i]) {
			return false
		}
	}
	return true
}

// IntHistExact compares two integer histograms field by field (floats bitwise,
// nil and empty slices equal); returns "" when equal, else the differing field.
func IntHistExact(a, b *histogram.Histogram) string {
	switch {
	case a == nil || b == nil:
		if a == b {
			return ""
		}
		return "nil"
	case a.CounterResetHint != b.CounterResetHint:
		return "CounterResetHint"
	case a.Schema != b.Schema:
		return "Schema"
	case B(a.ZeroThreshold) != B(b.ZeroThreshold):
		return "ZeroThreshold"
	case a.ZeroCount != b.ZeroCount:
		return "ZeroCount"
	case a.Count != b.Count:
		return "Count"
	case B(a.Sum) != B(b.Sum):
		return "Sum"
	case !spansEq(a.PositiveSpans, b.PositiveSpans):
		return "PositiveSpans"
	case !spansEq(a.NegativeSpans, b.NegativeSpans):
		return "NegativeSpans"
	case !floatsBitEq(a.CustomValues, b.CustomValues):
		return "CustomValues"
	}
	if len(a.PositiveBuckets) != len(b.PositiveBuckets) || len(a.NegativeBuckets) != len(b.NegativeBuckets) {
		return "bucket count"
	}
	for i := range a.PositiveBuckets {
		if a.PositiveBuckets[i] != b.PositiveBuckets[i] {
			return "PositiveBuckets"
		}
	}
	for i := range a.NegativeBuckets {
		if a.NegativeBuckets[i] != b.NegativeBuckets[i] {
			return "NegativeBuckets"
		}
	}
	return ""
}

// FloatHistExact is IntHistExact for float histograms.
func FloatHistExact(a, b *histogram.FloatHistogram) string {
	switch {
	case a == nil || b == nil:
		if a == b {
			return ""
		}
		return "nil"
	case a.CounterResetHint != b.CounterResetHint:
		return "CounterResetHint"
	case a.Schema != b.Schema:
		return "Schema"
	case B(a.ZeroThreshold) != B(b.ZeroThreshold):
		return "ZeroThreshold"
	case B(a.ZeroCount) != B(b.ZeroCount):
		return "ZeroCount"
	case B(a.Count) != B(b.Count):
		return "Count"
	case B(a.Sum) != B(b.Sum):
		return "Sum"
	case !spansEq(a.PositiveSpans, b.PositiveSpans):
		return "PositiveSpans"
	case !spansEq(a.NegativeSpans, b.NegativeSpans):
		return "NegativeSpans"
	case !floatsBitEq(a.CustomValues, b.CustomValues):
		return "CustomValues"
	case !floatsBitEq(a.PositiveBuckets, b.PositiveBuckets):
		return "PositiveBuckets"
	case !floatsBitEq(a.NegativeBuckets, b.NegativeBuckets):
		return "NegativeBuckets"
	}
	return ""
}

func floatMapEq(a, b map[int32]float64) bool {
	if len(a) != len(b) {
		return false
	}
	for k, v := range a {
		if w, ok := b[k]; !ok || B(v) != B(w) {
			return false
		}
	}
	return true
}

// FloatHistSemantic compares two float histograms by meaning: schema, zero threshold,
// custom bounds, count, sum (bitwise), zero count and the bucket maps - span layout
// and explicitly stored empty buckets are ignored. hint selects whether the
// counter-reset hint is compared too.
func FloatHistSemantic(a, b *histogram.FloatHistogram, hint bool) string {
	switch {
	case a == nil || b == nil:
		if a == b {
			return ""
		}
		return "nil"
	case hint && a.CounterResetHint != b.CounterResetHint:
		return "CounterResetHint"
	case a.Schema != b.Schema:
		return "Schema"
	case B(a.ZeroThreshold) != B(b.ZeroThreshold):
		return "ZeroThreshold"
	case B(a.ZeroCount) != B(b.ZeroCount):
		return "ZeroCount"
	case B(a.Count) != B(b.Count):
		return "Count"
	case B(a.Sum) != B(b.Sum):
		return "Sum"
	case !floatsBitEq(a.CustomValues, b.CustomValues):
		return "CustomValues"
	case !floatMapEq(BucketMap(a.PositiveSpans, a.PositiveBuckets), BucketMap(b.PositiveSpans, b.PositiveBuckets)):
		return "positive buckets"
	case !floatMapEq(BucketMap(a.NegativeSpans, a.NegativeBuckets), BucketMap(b.NegativeSpans, b.NegativeBuckets)):
		return "negative buckets"
	}
	return ""
}
