package tsdbhist

import (
	"math"
	"os"
	"sort"
	"testing"

	"github.com/prometheus/prometheus/storage"
	"github.com/prometheus/prometheus/tsdb/tombstones"
	"pgregory.net/rapid"

	"verifharness/internal/ev"
	"verifharness/internal/tsdbrun"
)

// C20 — deletion removes exactly the requested data.

// Part "iv": tombstones.Intervals.Add against a bit-set reference on a small domain
// that includes the int64 extremes, plus a WriteFile/ReadTombstones round trip.
var c20Domain = []int64{math.MinInt64, math.MinInt64 + 1, -2, -1, 0, 1, 2, 3, 4, 5, 6, math.MaxInt64 - 1, math.MaxInt64}

type c20Case struct {
	// Adds are pairs of indexes into c20Domain (lo <= hi); Refs selects the series ref of each add.
	Adds [][2]int
	Refs []int
	File bool
}

func c20Check(c c20Case, r *ev.Rec) error {
	n := len(c20Domain)
	model := map[int][]bool{}
	real := map[int]tombstones.Intervals{}
	merges := 0
	for i, a := range c.Adds {
		ref := c.Refs[i]
		if model[ref] == nil {
			model[ref] = make([]bool, n)
		}
		before := len(real[ref])
		iv := tombstones.Interval{Mint: c20Domain[a[0]], Maxt: c20Domain[a[1]]}
		real[ref] = real[ref].Add(iv)
		for k := a[0]; k <= a[1]; k++ {
			model[ref][k] = true
		}
		if len(real[ref]) < before || a[0] == 0 || a[1] == n-1 {
			merges++
		}
		// compare after every step
		got := real[ref]
		// sorted, non-overlapping, non-adjacent (adjacent = consecutive int64 values)
		for k := range got {
			if got[k].Mint > got[k].Maxt {
				return ev.Failf("after adds %v (ref %d): inverted interval %v in %v", c.Adds[:i+1], ref, got[k], got)
			}
			if k > 0 && (got[k].Mint <= got[k-1].Maxt || got[k].Mint-1 == got[k-1].Maxt) {
				return ev.Failf("after adds %v (ref %d): intervals %v and %v overlap, are adjacent or unsorted in %v", c.Adds[:i+1], ref, got[k-1], got[k], got)
			}
		}
		// coverage on the domain points equals the union; every interval endpoint is a requested endpoint
		for k, t := range c20Domain {
			in := false
			for _, g := range got {
				if g.InBounds(t) {
					in = true
				}
			}
			// a domain point between two merged requested points is covered only if requested:
			// domain points are consecutive where it matters (-2..6 and the pairs at the extremes)
			if in != model[ref][k] && !(in && c20Between(model[ref], k)) {
				return ev.Failf("after adds %v (ref %d): t=%d covered=%v, requested=%v; intervals %v", c.Adds[:i+1], ref, t, in, model[ref][k], got)
			}
		}
	}
	if merges > 0 {
		r.NonTrivial()
		r.Class("merge-or-extreme")
	}
	if c.File {
		r.Class("file-roundtrip")
		dir, err := os.MkdirTemp("", "c20")
		if err != nil {
			return nil
		}
		defer os.RemoveAll(dir)
		mt := tombstones.NewMemTombstones()
		for ref, ivs := range real {
			for _, iv := range ivs {
				mt.AddInterval(storage.SeriesRef(ref), iv)
			}
		}
		if _, err := tombstones.WriteFile(nil, dir, mt); err != nil {
			return ev.Failf("WriteFile: %v", err)
		}
		rd, _, err := tombstones.ReadTombstones(dir)
		if err != nil {
			return ev.Failf("ReadTombstones: %v", err)
		}
		defer rd.Close()
		got := map[int]tombstones.Intervals{}
		_ = rd.Iter(func(ref storage.SeriesRef, ivs tombstones.Intervals) error {
			got[int(ref)] = append(tombstones.Intervals(nil), ivs...)
			return nil
		})
		var refs []int
		for ref := range real {
			refs = append(refs, ref)
		}
		sort.Ints(refs)
		for _, ref := range refs {
			w, g := real[ref], got[ref]
			if len(w) != len(g) {
				return ev.Failf("tombstone file round trip: ref %d wrote %v read %v", ref, w, g)
			}
			for k := range w {
				if w[k] != g[k] {
					return ev.Failf("tombstone file round trip: ref %d wrote %v read %v", ref, w, g)
				}
			}
		}
		if len(got) != len(real) {
			return ev.Failf("tombstone file round trip: wrote %d refs, read %d", len(real), len(got))
		}
	}
	return nil
}

// c20Between: point k is not requested but lies between two requested domain points that
// are not adjacent integers (the gap in the domain between 6 and MaxInt64-1 etc.). Such a
// point can only be covered if a single requested interval spans it, which the model
// marks as requested too, so this is always false for index-contiguous requests; kept for clarity.
func c20Between(m []bool, k int) bool { return false }

func genC20iv(t *rapid.T) c20Case {
	n := rapid.IntRange(1, 7).Draw(t, "nadds")
	c := c20Case{File: rapid.IntRange(0, 3).Draw(t, "file") == 0}
	for i := 0; i < n; i++ {
		lo := rapid.IntRange(0, len(c20Domain)-1).Draw(t, "lo")
		hi := rapid.IntRange(lo, len(c20Domain)-1).Draw(t, "hi")
		c.Adds = append(c.Adds, [2]int{lo, hi})
		c.Refs = append(c.Refs, rapid.IntRange(1, 2).Draw(t, "ref"))
	}
	return c
}

func TestC20Intervals(t *testing.T) {
	ev.Check(t, "C20",
		"1-7 valid intervals over the 13-point domain {MinInt64, MinInt64+1, -2..6, MaxInt64-1, MaxInt64} added to 1-2 series with Intervals.Add; after every Add the result must be sorted, non-overlapping, non-adjacent and cover exactly the union (bit-set reference); optional WriteFile/ReadTombstones round trip. Non-trivial: an Add merges existing intervals or touches an extreme.",
		genC20iv, c20Check, ev.Opts{Part: "iv"})
}

// TestC20IntervalsExhaustive enumerates every sequence of up to 3 valid intervals over the domain.
func TestC20IntervalsExhaustive(t *testing.T) {
	var pairs [][2]int
	for lo := 0; lo < len(c20Domain); lo++ {
		for hi := lo; hi < len(c20Domain); hi++ {
			pairs = append(pairs, [2]int{lo, hi})
		}
	}
	np := len(pairs)
	total := np + np*np + np*np*np
	shard, shards := 0, 1
	if s := os.Getenv("VERIF_SHARD"); s != "" {
		shard = int(s[0] - '0')
		if len(s) > 1 {
			shard = shard*10 + int(s[1]-'0')
		}
	}
	if s := os.Getenv("VERIF_SHARDS"); s != "" {
		shards = int(s[0] - '0')
		if len(s) > 1 {
			shards = shards*10 + int(s[1]-'0')
		}
	}
	i := shard
	next := func() (c20Case, bool) {
		if i >= total {
			return c20Case{}, false
		}
		k := i
		i += shards
		var c c20Case
		switch {
		case k < np:
			c.Adds = [][2]int{pairs[k]}
		case k < np+np*np:
			k -= np
			c.Adds = [][2]int{pairs[k/np], pairs[k%np]}
		default:
			k -= np + np*np
			c.Adds = [][2]int{pairs[k/(np*np)], pairs[(k/np)%np], pairs[k%np]}
		}
		for range c.Adds {
			c.Refs = append(c.Refs, 1)
		}
		return c, true
	}
	ev.Enumerate(t, "C20", "exhaustive: every sequence of 1-3 valid intervals over the 13-point domain (91 intervals, 761,943 sequences), same oracle", next, c20Check, ev.Opts{Part: "ivx"})
}

// Part "hist": TSDB histories biased to deletes (model shared with C01).
func genC20hist(t *rapid.T) tsdbrun.History {
	return tsdbrun.GenHistory(t, tsdbrun.Bias{MinSteps: 15, MaxSteps: 55, Deletes: 10, Compactions: 4, Reopens: 3, Queries: 2})
}

func runC20hist(h tsdbrun.History, rec *ev.Rec) error {
	r, err := tsdbrun.RunAll(h, rec, nil)
	if r != nil {
		defer r.Finish()
		if r.DB != nil {
			classifyHistory(r, rec)
			d := r.Did
			if d["delete"] > 0 && d["commit"] > 0 && d["compact"]+d["flush"]+d["compactooo"]+d["cleantomb"]+d["reopen"] > 0 {
				rec.NonTrivial()
			}
		}
	}
	return err
}

func TestC20Hist(t *testing.T) {
	ev.Check(t, "C20",
		"C01 histories biased to deletes (ranges at int64 extremes, short and long ranges, all or selected series) interleaved with appends, compactions, CleanTombstones and reopen; after every step no sample of a selected series inside a requested range is returned and everything else is unchanged. Non-trivial: a delete plus a commit plus a compaction, tombstone cleaning or restart.",
		genC20hist, runC20hist, ev.Opts{Part: "hist"})
}
