package tsdbhist

import (
	"context"
	"math"
	"testing"

	dto "github.com/prometheus/client_model/go"
	"github.com/prometheus/prometheus/model/labels"
	"github.com/prometheus/prometheus/tsdb/chunks"
	"github.com/prometheus/prometheus/tsdb/index"
	"pgregory.net/rapid"

	"verifharness/internal/ev"
	"verifharness/internal/gen"
	tm "verifharness/internal/tsdbmodel"
	"verifharness/internal/tsdbrun"
)

// C52 — the head's reported counters match its contents.

func genC52(t *rapid.T) tsdbrun.History {
	return tsdbrun.GenHistory(t, tsdbrun.Bias{MinSteps: 15, MaxSteps: 60, Deletes: 1, Compactions: 4, Reopens: 3, Queries: 0})
}

func gauge(r *tsdbrun.Run, name string) (float64, bool) {
	mfs, err := r.Reg.Gather()
	if err != nil {
		return 0, false
	}
	for _, mf := range mfs {
		if mf.GetName() == name && len(mf.Metric) == 1 {
			m := mf.Metric[0]
			switch mf.GetType() {
			case dto.MetricType_GAUGE:
				return m.GetGauge().GetValue(), true
			case dto.MetricType_COUNTER:
				return m.GetCounter().GetValue(), true
			}
		}
	}
	return 0, false
}

// c52Recount walks the head through its exported readers.
func c52Recount(r *tsdbrun.Run) (series, chunkCount int, staleLo, staleHi, histLo, histHi, bucketsLo, bucketsHi int, err error) {
	h := r.DB.Head()
	ir, e := h.Index()
	if e != nil {
		return 0, 0, 0, 0, 0, 0, 0, 0, e
	}
	defer ir.Close()
	k, v := index.AllPostingsKey()
	p, e := ir.Postings(context.Background(), k, v)
	if e != nil {
		return 0, 0, 0, 0, 0, 0, 0, 0, e
	}
	cr, e := h.Chunks()
	if e != nil {
		return 0, 0, 0, 0, 0, 0, 0, 0, e
	}
	defer cr.Close()
	var b labels.ScratchBuilder
	var chks []chunks.Meta
	visible := 0
	for p.Next() {
		series++
		if e := ir.Series(p.At(), &b, &chks); e != nil {
			return 0, 0, 0, 0, 0, 0, 0, 0, e
		}
		chunkCount += len(chks)
		if len(chks) == 0 {
			continue
		}
		// newest in-order sample straight from the newest chunk (tombstones do not apply here)
		c, it, e := cr.ChunkOrIterable(chks[len(chks)-1])
		if e != nil {
			return 0, 0, 0, 0, 0, 0, 0, 0, e
		}
		var obs []tsdbrun.Obs
		if c != nil {
			obs, e = tsdbrun.Drain(c.Iterator(nil))
		} else {
			obs, e = tsdbrun.Drain(it.Iterator(nil))
		}
		if e != nil {
			return 0, 0, 0, 0, 0, 0, 0, 0, e
		}
		if len(obs) == 0 {
			continue
		}
		visible++
		last := obs[len(obs)-1]
		stale := false
		switch last.Kind {
		case tm.KFloat:
			stale = last.F == gen.StaleNaNBits
		case tm.KHist:
			stale = gen.B(last.H.Sum) == gen.StaleNaNBits
			histLo++
			bucketsLo += len(last.H.PositiveBuckets) + len(last.H.NegativeBuckets)
		case tm.KFHist:
			stale = gen.B(last.FH.Sum) == gen.StaleNaNBits
			histLo++
			bucketsLo += len(last.FH.PositiveBuckets) + len(last.FH.NegativeBuckets)
		}
		if stale {
			staleLo++
		}
	}
	if p.Err() != nil {
		return 0, 0, 0, 0, 0, 0, 0, 0, p.Err()
	}
	// series without a visible in-order sample (only out-of-order data, pending appends, or a
	// newest sample hidden by a tombstone) keep whatever state their last in-order sample
	// left: they are counted as "unknown" (upper bounds).
	unknown := series - visible
	if unknown < 0 {
		unknown = 0
	}
	staleHi, histHi = staleLo+unknown, histLo+unknown
	bucketsHi = bucketsLo
	if unknown > 0 {
		bucketsHi = math.MaxInt32
	}
	return
}

func runC52(h tsdbrun.History, rec *ev.Rec) error {
	sawHistOrStale, sawTrunc := false, false
	r, err := tsdbrun.RunAll(h, rec, func(r *tsdbrun.Run) {
		r.AfterStep = func(r *tsdbrun.Run, op tsdbrun.Op) error {
			if r.DB == nil {
				return nil
			}
			switch op.K {
			case "query":
				return nil
			case "add":
				if op.V.Kind != tm.KFloat {
					sawHistOrStale = true
				}
			case "compact", "flush", "reopen":
				sawTrunc = true
			}
			hd := r.DB.Head()
			// active appenders
			if g, ok := gauge(r, "prometheus_tsdb_head_active_appenders"); ok && int(g) != len(r.Apps) {
				return ev.Failf("after %q: prometheus_tsdb_head_active_appenders=%v but %d appenders are open\nhistory:\n%s", op.K, g, len(r.Apps), r.TraceString())
			}
			// contents are only recounted while no appender is open: an open appender may hold
			// created-but-uncommitted series
			if len(r.Apps) > 0 {
				return nil
			}
			series, chunkCount, staleLo, staleHi, histLo, histHi, bLo, bHi, e := c52Recount(r)
			if e != nil {
				return ev.Failf("recount failed: %v", e)
			}
			if int(hd.NumSeries()) != series {
				return ev.Failf("after %q: Head.NumSeries()=%d, the head index lists %d series\nhistory:\n%s", op.K, hd.NumSeries(), series, r.TraceString())
			}
			if g, ok := gauge(r, "prometheus_tsdb_head_series"); ok && int(g) != series {
				return ev.Failf("after %q: prometheus_tsdb_head_series=%v, the head index lists %d series\nhistory:\n%s", op.K, g, series, r.TraceString())
			}
			if n := int(hd.NumStaleSeries()); n < staleLo || n > staleHi {
				return ev.Failf("after %q: Head.NumStaleSeries()=%d, recount gives between %d and %d\nhistory:\n%s", op.K, n, staleLo, staleHi, r.TraceString())
			}
			if n := int(hd.NumNativeHistogramSeries()); n < histLo || n > histHi {
				return ev.Failf("after %q: Head.NumNativeHistogramSeries()=%d, recount gives between %d and %d\nhistory:\n%s", op.K, n, histLo, histHi, r.TraceString())
			}
			if n := int(hd.NumNativeHistogramBuckets()); n < bLo || n > bHi {
				return ev.Failf("after %q: Head.NumNativeHistogramBuckets()=%d, recount gives between %d and %d\nhistory:\n%s", op.K, n, bLo, bHi, r.TraceString())
			}
			if r.KnownTriggerSeen() {
				// WAL replay of a series hit by the known findings sample-committed-before-series-record /
				// wbl-sample-orphaned-by-checkpoint re-creates chunks for records it later discards
				rec.Class("chunk-gauge-skipped-known-trigger")
			} else if r.Cfg.OOOWindow == 0 {
				if g, ok := gauge(r, "prometheus_tsdb_head_chunks"); ok && int(g) != chunkCount {
					return ev.Failf("after %q: prometheus_tsdb_head_chunks=%v, the head index lists %d chunks\nhistory:\n%s", op.K, g, chunkCount, r.TraceString())
				}
				rec.Class("chunk-gauge-compared")
			}
			if staleLo == staleHi {
				rec.Class("exact-recount")
			} else {
				rec.Class("bounded-recount")
			}
			return nil
		}
	})
	if r != nil {
		defer r.Finish()
		if r.DB != nil && sawHistOrStale && sawTrunc {
			rec.NonTrivial()
		}
	}
	return err
}

func TestC52(t *testing.T) {
	ev.Check(t, "C52",
		"C01-style histories on a real DB with a private registry; after every step the active-appender gauge is compared with the number of open appenders, and whenever no appender is open the series count (head index postings), stale-series / native-histogram-series / native-histogram-bucket counts (newest in-order sample of every series read through a querier over the in-order head; series without a visible in-order sample give an upper bound only) and, with the OOO window off, the head-chunks gauge (chunk metas of the head index) are compared with Head.Num*() and the gathered gauges. Non-trivial: histogram or stale samples were appended and a truncation or restart happened.",
		genC52, runC52)
}
