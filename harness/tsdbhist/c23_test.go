package tsdbhist

import (
	"fmt"
	"math"
	"os"
	"os/exec"
	"path/filepath"
	"strings"
	"testing"

	"github.com/prometheus/client_golang/prometheus"
	"github.com/prometheus/common/promslog"
	"github.com/prometheus/prometheus/tsdb"
	"pgregory.net/rapid"

	"verifharness/internal/ev"
	"verifharness/internal/tsdbrun"
)

// C23 — restart from a memory snapshot equals restart from the WAL.

type c23Case struct {
	H tsdbrun.History
	// Damage: 0 none, 1 flip a byte of the snapshot, 2 truncate the snapshot file, 3 remove the
	// newest WAL segment (WAL behind the snapshot is not generated: it loses data by definition)
	Damage int
	Pos    uint32
}

func genC23(t *rapid.T) c23Case {
	tr := true
	return c23Case{
		H:      tsdbrun.GenHistory(t, tsdbrun.Bias{MinSteps: 12, MaxSteps: 45, Deletes: 3, Compactions: 3, Reopens: 1, Queries: 0, Snapshot: &tr}),
		Damage: rapid.SampledFrom([]int{0, 0, 0, 1, 2}).Draw(t, "damage"),
		Pos:    rapid.Uint32().Draw(t, "pos"),
	}
}

func openAndQuery(dir string, cfg tsdbrun.Config) (string, float64, error) {
	reg := prometheus.NewRegistry()
	db, err := tsdb.Open(dir, promslog.NewNopLogger(), reg, cfg.Options(), nil)
	if err != nil {
		return "", 0, fmt.Errorf("tsdb.Open: %w", err)
	}
	db.DisableCompactions()
	defer db.Close()
	q, err := db.Querier(math.MinInt64, math.MaxInt64)
	if err != nil {
		return "", 0, err
	}
	defer q.Close()
	res, err := tsdbrun.QuerySamples(q, tsdbrun.Matchers(nil))
	if err != nil {
		return "", 0, err
	}
	replayErrs := 0.0
	if mfs, err := reg.Gather(); err == nil {
		for _, mf := range mfs {
			if mf.GetName() == "prometheus_tsdb_snapshot_replay_error_total" && len(mf.Metric) == 1 {
				replayErrs = mf.Metric[0].GetCounter().GetValue()
			}
		}
	}
	return resultString(res), replayErrs, nil
}

func snapshotDirs(dir string) []string {
	var out []string
	ents, _ := os.ReadDir(dir)
	for _, e := range ents {
		if e.IsDir() && strings.HasPrefix(e.Name(), "chunk_snapshot.") && !strings.HasSuffix(e.Name(), ".tmp") {
			out = append(out, filepath.Join(dir, e.Name()))
		}
	}
	return out
}

func runC23(c c23Case, rec *ev.Rec) error {
	r, err := tsdbrun.RunAll(c.H, rec, nil)
	if r != nil {
		defer r.Finish()
	}
	if err != nil {
		rec.Discard() // a C01-level failure of the history itself is not judged here
		return nil
	}
	knownTrigger := r.ReplayDivergenceTrigger()
	if err := r.DB.Close(); err != nil {
		return ev.Failf("Close: %v", err)
	}
	r.DB = nil
	base, err := os.MkdirTemp("", "c23")
	if err != nil {
		return nil
	}
	defer os.RemoveAll(base)
	dirA, dirB := filepath.Join(base, "A"), filepath.Join(base, "B")
	for _, d := range []string{dirA, dirB} {
		if out, err := exec.Command("cp", "-r", r.Dir, d).CombinedOutput(); err != nil {
			return ev.Failf("cp: %v %s", err, out)
		}
	}
	snaps := snapshotDirs(dirA)
	for _, s := range snapshotDirs(dirB) {
		os.RemoveAll(s)
	}
	damaged := false
	if c.Damage != 0 && len(snaps) > 0 {
		files, _ := filepath.Glob(filepath.Join(snaps[len(snaps)-1], "*"))
		if len(files) > 0 {
			f := files[len(files)-1]
			if b, err := os.ReadFile(f); err == nil && len(b) > 0 {
				p := int(c.Pos) % len(b)
				if c.Damage == 1 {
					b[p] ^= 0x41
				} else {
					b = b[:p]
				}
				os.WriteFile(f, b, 0o644)
				damaged = true
			}
		}
	}
	// structural failures of a restart that the history runner already attributes to a listed finding
	restartErr := func(which string, err error) error {
		if r.SnapRefRisk {
			return ev.FailSig("snapshot-restart-reissues-series-ref", "%s: %v (series ref re-issued after a snapshot restart)\nhistory:\n%s", which, err, r.TraceString())
		}
		if knownTrigger {
			rec.Discard()
			return nil
		}
		return nil
	}
	sa, replayErrs, err := openAndQuery(dirA, c.H.Cfg)
	if err != nil {
		if r.SnapRefRisk || knownTrigger {
			return restartErr("reopen with snapshot", err)
		}
		return ev.Failf("reopen with snapshot (damage=%d): %v\nhistory:\n%s", c.Damage, err, r.TraceString())
	}
	sb, _, err := openAndQuery(dirB, c.H.Cfg)
	if err != nil {
		if r.SnapRefRisk || knownTrigger {
			return restartErr("reopen without snapshot", err)
		}
		return ev.Failf("reopen without snapshot: %v\nhistory:\n%s", err, r.TraceString())
	}
	if sa != sb && c.Damage != 0 && damaged && replayErrs == 0 {
		return ev.FailSig("damaged-snapshot-loaded-without-error", "a damaged snapshot (damage=%d at %d) was loaded without a replay error and the restart returns different data than a WAL-only restart\nwith snapshot:\n%swithout snapshot:\n%shistory:\n%s", c.Damage, c.Pos, sa, sb, r.TraceString())
	}
	if sa != sb {
		if r.OOODeleteSeen() {
			return ev.FailSig(tsdbrun.SigDeleteOOO, "restart from the snapshot and restart from the WAL return different data after a delete covering out-of-order samples\nwith snapshot:\n%swithout snapshot:\n%shistory:\n%s", sa, sb, r.TraceString())
		}
		if !r.SnapRefRisk && knownTrigger {
			// WAL replay of this history diverges by a known finding of the history runner
			// (listed under C01); snapshot and WAL restarts then legitimately differ
			rec.Discard()
			return nil
		}
		if r.SnapRefRisk {
			return ev.FailSig("snapshot-restart-reissues-series-ref", "restart from the snapshot and restart from the WAL return different data (series ref re-issued after a snapshot restart)\nwith snapshot:\n%swithout snapshot:\n%shistory:\n%s", sa, sb, r.TraceString())
		}
		return ev.Failf("restart from the snapshot (damage=%d, replay errors=%v) and restart from the WAL return different data\nwith snapshot:\n%swithout snapshot:\n%sconfig %+v\nhistory:\n%s", c.Damage, replayErrs, sa, sb, c.H.Cfg, r.TraceString())
	}
	switch {
	case damaged:
		rec.Class("snapshot-damaged")
		if replayErrs > 0 {
			rec.Class("snapshot-damage-detected")
		}
	case len(snaps) > 0 && replayErrs == 0:
		rec.Class("snapshot-loaded")
		d := r.Did
		if r.M.Stats["commit:out-of-order accept"] > 0 || d["delete"] > 0 || r.M.Stats["append:in-order"] > 0 {
			rec.NonTrivial()
		}
	default:
		rec.Class("no-snapshot")
	}
	return nil
}

func TestC23(t *testing.T) {
	ev.Check(t, "C23",
		"C01-style histories with snapshot-on-shutdown, ending in a clean Close; the directory is copied twice, copy B loses its chunk_snapshot directories, copy A optionally gets one byte of the snapshot flipped or the snapshot file truncated; both are reopened read-write and their full query results must be identical. Non-trivial: the snapshot was present and loaded without replay error.",
		genC23, runC23)
}
