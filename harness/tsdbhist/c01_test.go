package tsdbhist

import (
	"testing"

	"pgregory.net/rapid"

	"verifharness/internal/ev"
	"verifharness/internal/tsdbrun"
)

// C01 — queries return exactly the committed, undeleted samples.
func genC01(t *rapid.T) tsdbrun.History {
	return tsdbrun.GenHistory(t, tsdbrun.Bias{MinSteps: 15, MaxSteps: 60, Deletes: 2, Compactions: 4, Reopens: 2, Queries: 4})
}

func classifyHistory(r *tsdbrun.Run, rec *ev.Rec) (interesting bool) {
	d := r.Did
	commit := d["commit"] > 0
	for _, k := range []string{"delete", "compact", "flush", "compactooo", "cleantomb", "reopen", "mmap"} {
		if d[k] > 0 {
			rec.Class("has-" + k)
		}
	}
	if r.M.Stats["commit:out-of-order accept"] > 0 {
		rec.Class("has-ooo-insert")
		interesting = true
	}
	if d["delete"] > 0 || d["compact"] > 0 || d["flush"] > 0 || d["compactooo"] > 0 || d["reopen"] > 0 {
		interesting = true
	}
	if r.M.Stats["commit:out-of-order accept"] > 0 && d["compactooo"]+d["compact"] > 0 && d["reopen"] > 0 {
		rec.Class("ooo+compaction+reopen")
	}
	if len(r.DB.Blocks()) > 0 {
		rec.Class("ends-with-blocks")
	}
	return commit && interesting
}

func runC01(h tsdbrun.History, rec *ev.Rec) error {
	r, err := tsdbrun.RunAll(h, rec, nil)
	if r != nil {
		defer r.Finish()
		if r.DB != nil && classifyHistory(r, rec) {
			rec.NonTrivial()
		}
	}
	return err
}

func TestC01(t *testing.T) {
	ev.Check(t, "C01",
		"histories of 15-60 steps over 2-5 series on a real tsdb.DB (open/append float|int histogram|float histogram|stale marker/commit/rollback, delete, db.Compact, full head flush, CompactOOOHead, CleanTombstones, ForceHeadMMap, close+reopen, sub-range queries) under drawn configurations (OOO window 0/300/2500, samples per chunk, OOO cap, XOR2, ST storage, isolation, overlapping compaction, snapshot on shutdown, WAL compression, appender v1/v2); after every mutating step a full-range sample query and chunk query are compared with the reference model. Non-trivial: a commit plus at least one of OOO insert, delete, compaction, reopen.",
		genC01, runC01)
}
