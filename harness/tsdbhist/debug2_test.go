package tsdbhist

import (
	"encoding/json"
	"fmt"
	"math"
	"os"
	"testing"

	"github.com/prometheus/client_golang/prometheus"
	"github.com/prometheus/common/promslog"
	"github.com/prometheus/prometheus/tsdb"

	"verifharness/internal/ev"
	"verifharness/internal/tsdbrun"
)

// TestDebugC23 runs the history of a C23 case, closes, removes the chunk snapshots and reopens
// with a logger on stderr (a development aid, not a check).
func TestDebugC23(t *testing.T) {
	f := os.Getenv("VERIF_DEBUG_REPLAY")
	if f == "" {
		t.Skip("development aid")
	}
	b, _ := os.ReadFile(f)
	var c c23Case
	if err := json.Unmarshal(b, &c); err != nil {
		t.Fatal(err)
	}
	r, err := tsdbrun.RunAll(c.H, &ev.Rec{}, nil)
	if err != nil {
		fmt.Println("runall:", err)
	}
	defer r.Finish()
	r.DB.Close()
	r.DB = nil
	for _, s := range snapshotDirs(r.Dir) {
		os.RemoveAll(s)
	}
	lvl := promslog.NewLevel()
	lvl.Set("debug")
	db, err := tsdb.Open(r.Dir, promslog.New(&promslog.Config{Level: lvl}), prometheus.NewRegistry(), c.H.Cfg.Options(), nil)
	if err != nil {
		t.Fatal(err)
	}
	q, _ := db.Querier(math.MinInt64, math.MaxInt64)
	res, _ := tsdbrun.QuerySamples(q, tsdbrun.Matchers(nil))
	q.Close()
	fmt.Println(resultString(res))
	db.Close()
}
