package tsdbhist

import (
	"testing"

	"pgregory.net/rapid"

	"verifharness/internal/ev"
	"verifharness/internal/tsdbrun"
)

// C02 — append admission and commit apply the documented ordering rules.
func genC02(t *rapid.T) tsdbrun.History {
	return tsdbrun.GenHistory(t, tsdbrun.Bias{MinSteps: 8, MaxSteps: 40, Rejects: true, HeadOnly: true, NoDeletes: true, MaxSeries: 3})
}

func runC02(h tsdbrun.History, rec *ev.Rec) error {
	r, err := tsdbrun.RunAll(h, rec, nil)
	if r != nil {
		defer r.Finish()
		for k, v := range r.M.Stats {
			rec.Count(k, v)
		}
		if r.M.Stats["boundary"] > 0 || r.M.Stats["dropped-at-commit"] > 0 {
			rec.NonTrivial()
		}
		if r.Cfg.V2 {
			rec.Class("appender-v2")
		} else {
			rec.Class("appender-v1")
		}
	}
	return err
}

func TestC02(t *testing.T) {
	ev.Check(t, "C02",
		"head histories (1-3 appenders open at once, 2-3 series, floats/int histograms/float histograms/stale markers, timestamps aimed at series max, appendable min valid time and headMaxT-oooWindow with offsets -1/0/+1, reject-out-of-order option, v1 and v2 appenders, head flushes and m-mapping in between); every Append's error class and, after every commit, the full contents are compared with the admission model. Non-trivial: an append lands exactly on a boundary or a sample accepted at append time is dropped/demoted at commit.",
		genC02, runC02)
}
