package tsdbhist

import (
	"crypto/sha256"
	"fmt"
	"io"
	"io/fs"
	"math"
	"os"
	"os/exec"
	"path/filepath"
	"sort"
	"strings"
	"testing"

	"github.com/prometheus/client_golang/prometheus"
	"github.com/prometheus/common/promslog"
	"github.com/prometheus/prometheus/tsdb"
	"pgregory.net/rapid"

	"verifharness/internal/ev"
	"verifharness/internal/tsdbrun"
)

// C53 — a read-only open returns what a read-write open would, and changes nothing.

type c53Case struct {
	H              tsdbrun.History
	Clean          bool // copy after Close (clean shutdown) or while the DB is open (unclean)
	SandboxOutside bool
	Flush          bool
	// Ranges select sub-range queries: both ends are picked among the structural boundaries of the
	// directory (block min/max times, head min/max time) with an offset of -1, 0 or +1.
	Ranges []c53Range `json:",omitempty"`
}

type c53Range struct{ A, B, DA, DB int }

func genC53(t *rapid.T) c53Case {
	f := false
	return c53Case{
		H:              tsdbrun.GenHistory(t, tsdbrun.Bias{MinSteps: 12, MaxSteps: 45, Deletes: 0, Compactions: 5, Reopens: 1, Queries: 0, Snapshot: &f}),
		Clean:          rapid.Bool().Draw(t, "clean"),
		SandboxOutside: rapid.Bool().Draw(t, "sandboxoutside"),
		Flush:          rapid.IntRange(0, 2).Draw(t, "flush") == 0,
		Ranges: rapid.SliceOfN(rapid.Custom(func(t *rapid.T) c53Range {
			return c53Range{A: rapid.IntRange(0, 15).Draw(t, "ra"), B: rapid.IntRange(0, 15).Draw(t, "rb"),
				DA: rapid.IntRange(-1, 1).Draw(t, "rda"), DB: rapid.IntRange(-1, 1).Draw(t, "rdb")}
		}), 3, 3).Draw(t, "ranges"),
	}
}

func treeHash(root string) (map[string]string, error) {
	out := map[string]string{}
	err := filepath.WalkDir(root, func(p string, d fs.DirEntry, err error) error {
		if err != nil {
			return err
		}
		rel, _ := filepath.Rel(root, p)
		if d.IsDir() {
			out[rel+"/"] = "dir"
			return nil
		}
		f, err := os.Open(p)
		if err != nil {
			return err
		}
		defer f.Close()
		h := sha256.New()
		if _, err := io.Copy(h, f); err != nil {
			return err
		}
		out[rel] = fmt.Sprintf("%x", h.Sum(nil))
		return nil
	})
	return out, err
}

func diffTrees(a, b map[string]string) string {
	var d []string
	for k, v := range a {
		if w, ok := b[k]; !ok {
			d = append(d, "removed "+k)
		} else if w != v {
			d = append(d, "changed "+k)
		}
	}
	for k := range b {
		if _, ok := a[k]; !ok {
			d = append(d, "added "+k)
		}
	}
	sort.Strings(d)
	return strings.Join(d, ", ")
}

func resultString(res tsdbrun.Result) string {
	var keys []int
	for k := range res {
		keys = append(keys, k)
	}
	sort.Ints(keys)
	var sb strings.Builder
	for _, k := range keys {
		if len(res[k]) == 0 {
			continue
		}
		fmt.Fprintf(&sb, "series %d:", k)
		for _, o := range res[k] {
			fmt.Fprintf(&sb, " %d=%s", o.T, o.String())
		}
		sb.WriteString("\n")
	}
	return sb.String()
}

// sameResults compares what two opens return. At a timestamp where the history stored two values
// (one in order, one through the out-of-order path) either of them may be returned, by either open.
func sameResults(r *tsdbrun.Run, a, b tsdbrun.Result) bool {
	keys := map[int]bool{} // series without samples may be absent from one of the maps
	for k := range a {
		keys[k] = true
	}
	for k := range b {
		keys[k] = true
	}
	for si := range keys {
		oa, ob := a[si], b[si]
		if len(oa) != len(ob) {
			return false
		}
		for i := range oa {
			if oa[i].T != ob[i].T {
				return false
			}
			if oa[i].String() == ob[i].String() {
				continue
			}
			p := r.M.Series[si].Pts[oa[i].T]
			if p == nil || len(p.Vals) < 2 {
				return false
			}
			okA, okB := false, false
			for _, v := range p.Vals {
				okA = okA || oa[i].Matches(v)
				okB = okB || ob[i].Matches(v)
			}
			if !okA || !okB {
				return false
			}
		}
	}
	return true
}

func runC53(c c53Case, rec *ev.Rec) error {
	r, err := tsdbrun.RunAll(c.H, rec, nil)
	if r != nil {
		defer r.Finish()
	}
	if err != nil {
		// a C01-level failure of the history itself (incl. known findings) is not judged here
		rec.Discard()
		return nil
	}
	if r.KnownTriggerSeen() {
		rec.Class("known-trigger-in-history")
	}
	hasBlocks := len(r.DB.Blocks()) > 0
	oooNewest := false
	if bs := r.DB.Blocks(); len(bs) > 0 {
		sort.Slice(bs, func(i, j int) bool { return bs[i].Meta().MinTime < bs[j].Meta().MinTime })
		lm := bs[len(bs)-1].Meta()
		oooNewest = lm.Compaction.FromOutOfOrder()
	}
	if c.Clean {
		if err := r.DB.Close(); err != nil {
			return ev.Failf("Close: %v", err)
		}
		r.DB = nil
	}
	base, err := os.MkdirTemp("", "c53")
	if err != nil {
		return nil
	}
	defer os.RemoveAll(base)
	dirA, dirB := filepath.Join(base, "A"), filepath.Join(base, "B")
	for _, d := range []string{dirA, dirB} {
		if out, err := exec.Command("cp", "-r", r.Dir, d).CombinedOutput(); err != nil {
			return ev.Failf("cp: %v %s", err, out)
		}
		os.Remove(filepath.Join(d, "lock"))
	}
	before, err := treeHash(dirA)
	if err != nil {
		return ev.Failf("hash: %v", err)
	}
	walOnly := false
	if ents, err := os.ReadDir(filepath.Join(dirA, "wal")); err == nil && len(ents) > 0 {
		walOnly = true
	}
	sandboxRoot := ""
	if c.SandboxOutside {
		sandboxRoot = filepath.Join(base, "sandbox")
		os.MkdirAll(sandboxRoot, 0o755)
	}
	ro, err := tsdb.OpenDBReadOnly(dirA, sandboxRoot, promslog.NewNopLogger())
	if err != nil {
		return ev.Failf("OpenDBReadOnly: %v\nhistory:\n%s", err, r.TraceString())
	}
	q, err := ro.Querier(math.MinInt64, math.MaxInt64)
	if err != nil {
		ro.Close()
		return ev.Failf("read-only Querier: %v\nhistory:\n%s", err, r.TraceString())
	}
	resA, qerr := tsdbrun.QuerySamples(q, tsdbrun.Matchers(nil))
	q.Close()
	if qerr != nil {
		ro.Close()
		return ev.Failf("read-only query: %v\nhistory:\n%s", qerr, r.TraceString())
	}
	if err := ro.Close(); err != nil {
		return ev.Failf("read-only Close: %v", err)
	}
	after, err := treeHash(dirA)
	if err != nil {
		return ev.Failf("hash: %v", err)
	}
	if d := diffTrees(before, after); d != "" {
		return ev.Failf("read-only open changed the data directory: %s\nconfig %+v clean=%v sandboxOutside=%v\nhistory:\n%s", d, c.H.Cfg, c.Clean, c.SandboxOutside, r.TraceString())
	}
	if c.SandboxOutside {
		if ents, _ := os.ReadDir(sandboxRoot); len(ents) > 0 {
			return ev.Failf("read-only open left %d entries in the sandbox root after Close", len(ents))
		}
	}
	// read-write open of the second copy
	dbB, err := tsdb.Open(dirB, promslog.NewNopLogger(), prometheus.NewRegistry(), c.H.Cfg.Options(), nil)
	if err != nil {
		return ev.Failf("read-write Open of the copy: %v\nhistory:\n%s", err, r.TraceString())
	}
	dbB.DisableCompactions()
	qb, err := dbB.Querier(math.MinInt64, math.MaxInt64)
	if err != nil {
		dbB.Close()
		return ev.Failf("read-write Querier: %v", err)
	}
	resB, qerr := tsdbrun.QuerySamples(qb, tsdbrun.Matchers(nil))
	qb.Close()
	// in-order head data of B for the FlushWAL comparison
	var resHead tsdbrun.Result
	if hq, herr := tsdb.NewBlockQuerier(tsdb.NewRangeHead(dbB.Head(), math.MinInt64, math.MaxInt64), math.MinInt64, math.MaxInt64); herr == nil {
		resHead, _ = tsdbrun.QuerySamples(hq, tsdbrun.Matchers(nil))
		hq.Close()
	}
	// sub-range queries of the read-write open, to be compared with the read-only open below
	type subRange struct {
		mint, maxt int64
		rw         string
		res        tsdbrun.Result
	}
	var subs []subRange
	{
		var bounds []int64
		for _, b := range dbB.Blocks() {
			bounds = append(bounds, b.Meta().MinTime, b.Meta().MaxTime)
		}
		if hm := dbB.Head().MinTime(); hm != math.MaxInt64 {
			bounds = append(bounds, hm)
		}
		if hm := dbB.Head().MaxTime(); hm != math.MinInt64 {
			bounds = append(bounds, hm)
		}
		for _, sel := range c.Ranges {
			if len(bounds) == 0 {
				break
			}
			a := bounds[sel.A%len(bounds)] + int64(sel.DA)
			b := bounds[sel.B%len(bounds)] + int64(sel.DB)
			if a > b {
				a, b = b, a
			}
			qq, err := dbB.Querier(a, b)
			if err != nil {
				continue
			}
			res, serr := tsdbrun.QuerySamples(qq, tsdbrun.Matchers(nil))
			qq.Close()
			if serr == nil {
				subs = append(subs, subRange{a, b, resultString(res), res})
			}
		}
	}
	dbB.Close()
	if qerr != nil {
		return ev.Failf("read-write query: %v", qerr)
	}
	if c.Flush && resHead != nil {
		// FlushWAL on a third copy (it is documented to work on the database directory itself)
		dirC, out := filepath.Join(base, "C"), filepath.Join(base, "flushed")
		if o, err := exec.Command("cp", "-r", dirA, dirC).CombinedOutput(); err != nil {
			return ev.Failf("cp: %v %s", err, o)
		}
		os.MkdirAll(out, 0o755)
		ro2, err := tsdb.OpenDBReadOnly(dirC, "", promslog.NewNopLogger())
		if err != nil {
			return ev.Failf("OpenDBReadOnly (flush): %v", err)
		}
		ferr := ro2.FlushWAL(out)
		ro2.Close()
		if ferr != nil {
			return ev.Failf("FlushWAL: %v\nhistory:\n%s", ferr, r.TraceString())
		}
		resF := tsdbrun.Result{}
		ents, _ := os.ReadDir(out)
		for _, e := range ents {
			if !e.IsDir() {
				continue
			}
			blk, err := tsdb.OpenBlock(promslog.NewNopLogger(), filepath.Join(out, e.Name()), nil, nil)
			if err != nil {
				return ev.Failf("open flushed block: %v", err)
			}
			q3, err := tsdb.NewBlockQuerier(blk, math.MinInt64, math.MaxInt64)
			if err == nil {
				var part tsdbrun.Result
				part, err = tsdbrun.QuerySamples(q3, tsdbrun.Matchers(nil))
				q3.Close()
				for k, v := range part {
					resF[k] = append(resF[k], v...)
				}
			}
			blk.Close()
			if err != nil {
				return ev.Failf("query flushed block: %v", err)
			}
		}
		rec.Class("flushwal")
		// every in-order head sample of the read-write open must be in the flushed block, and the
		// flushed block must not contain anything the read-write open does not return
		for si, obs := range resHead {
			have := map[int64]string{}
			for _, o := range resF[si] {
				have[o.T] = o.String()
			}
			for _, o := range obs {
				if have[o.T] != "" && have[o.T] != o.String() {
					if p := r.M.Series[si].Pts[o.T]; p != nil && len(p.Vals) > 1 {
						rec.Class("flushwal-duplicate-timestamp")
						continue // see below: either stored value may be returned
					}
				}
				if have[o.T] != o.String() {
					return ev.Failf("FlushWAL block lacks head sample series %d t=%d %s (has %q)\nflushed:\n%shead of read-write open:\n%shistory:\n%s", si, o.T, o.String(), have[o.T], resultString(resF), resultString(resHead), r.TraceString())
				}
			}
		}
		for si, obs := range resF {
			have := map[int64]string{}
			for _, o := range resB[si] {
				have[o.T] = o.String()
			}
			for _, o := range obs {
				if have[o.T] != "" && have[o.T] != o.String() {
					// two values were stored at this timestamp (one in order, one through the
					// out-of-order path): the merged read-write view returns either of them
					if p := r.M.Series[si].Pts[o.T]; p != nil && len(p.Vals) > 1 {
						ok := false
						for _, v := range p.Vals {
							if o.Matches(v) {
								ok = true
							}
						}
						if ok {
							rec.Class("flushwal-duplicate-timestamp")
							continue
						}
					}
				}
				if have[o.T] != o.String() {
					return ev.Failf("FlushWAL block holds series %d t=%d %s which the read-write open does not return (%q)\nhistory:\n%s", si, o.T, o.String(), have[o.T], r.TraceString())
				}
			}
		}
	}
	sa, sb := resultString(resA), resultString(resB)
	if sa != sb && !sameResults(r, resA, resB) {
		sig := ""
		msg := fmt.Sprintf("read-only and read-write open of the same directory return different data\nread-only:\n%sread-write:\n%sconfig %+v clean=%v\nhistory:\n%s", sa, sb, c.H.Cfg, c.Clean, r.TraceString())
		if sig != "" {
			return ev.FailSig(sig, "%s", msg)
		}
		return ev.Failf("%s", msg)
	}
	// one DBReadOnly per query: the implementation documents that it does not support several Queriers
	for _, sr := range subs {
		ro3, err := tsdb.OpenDBReadOnly(dirA, sandboxRoot, promslog.NewNopLogger())
		if err != nil {
			return ev.Failf("OpenDBReadOnly (sub-range): %v", err)
		}
		q3, err := ro3.Querier(sr.mint, sr.maxt)
		if err != nil {
			ro3.Close()
			return ev.Failf("read-only Querier(%d,%d): %v\nhistory:\n%s", sr.mint, sr.maxt, err, r.TraceString())
		}
		res, qerr := tsdbrun.QuerySamples(q3, tsdbrun.Matchers(nil))
		q3.Close()
		ro3.Close()
		if qerr != nil {
			return ev.Failf("read-only query [%d,%d]: %v\nhistory:\n%s", sr.mint, sr.maxt, qerr, r.TraceString())
		}
		if got := resultString(res); got != sr.rw && !sameResults(r, res, sr.res) {
			return ev.Failf("read-only and read-write open return different data for the range [%d,%d]\nread-only:\n%sread-write:\n%sconfig %+v clean=%v\nhistory:\n%s", sr.mint, sr.maxt, got, sr.rw, c.H.Cfg, c.Clean, r.TraceString())
		}
		rec.Class("sub-range-compared")
	}
	if walOnly && hasBlocks {
		rec.NonTrivial()
	}
	if oooNewest {
		rec.Class("ooo-block-newest-by-mint")
	}
	if c.Clean {
		rec.Class("clean-copy")
	} else {
		rec.Class("unclean-copy")
	}
	return nil
}

func TestC53(t *testing.T) {
	ev.Check(t, "C53",
		"a C01-style history (in-order and out-of-order data, head and OOO compactions, reopen) leaves a directory that is copied twice, after Close or while the DB is open; copy A is hashed, opened with OpenDBReadOnly (sandbox inside the directory or in a sibling directory), queried over the full range and over three sub-ranges whose ends sit on block and head boundaries (-1/0/+1), optionally FlushWAL'ed into another directory, closed and hashed again; copy B is opened read-write with the same options and queried; results must be identical and A's tree unchanged. Non-trivial: the directory holds WAL data and at least one block.",
		genC53, runC53)
}
