package tsdbhist

import (
	"context"
	"encoding/json"
	"fmt"
	"math"
	"os"
	"path/filepath"
	"testing"

	"github.com/prometheus/common/promslog"
	"github.com/prometheus/prometheus/model/labels"
	"github.com/prometheus/prometheus/storage"
	"github.com/prometheus/prometheus/tsdb"
	"github.com/prometheus/prometheus/tsdb/record"
	"github.com/prometheus/prometheus/tsdb/tombstones"
	"github.com/prometheus/prometheus/tsdb/wlog"

	"verifharness/internal/ev"
	"verifharness/internal/tsdbrun"
)

// TestDebugReplay executes the history in $VERIF_DEBUG_REPLAY op by op without comparing and
// prints what the database returns at the end (a development aid, not a check).
func TestDebugReplay(t *testing.T) {
	f := os.Getenv("VERIF_DEBUG_REPLAY")
	if f == "" {
		t.Skip("development aid")
	}
	b, err := os.ReadFile(f)
	if err != nil {
		t.Fatal(err)
	}
	var h tsdbrun.History
	if err := json.Unmarshal(b, &h); err != nil || len(h.Ops) == 0 {
		var w struct{ H tsdbrun.History }
		if err := json.Unmarshal(b, &w); err != nil {
			t.Fatal(err)
		}
		h = w.H
	}
	r, err := tsdbrun.Start(h, &ev.Rec{})
	if err != nil {
		t.Fatal(err)
	}
	defer r.Finish()
	for i, op := range h.Ops {
		if err := r.Exec(op); err != nil {
			fmt.Printf("op %d %s: %v\n", i, op.K, err)
		}
	}
	fmt.Println(r.TraceString())
	q, err := r.DB.Querier(math.MinInt64, math.MaxInt64)
	if err != nil {
		t.Fatal(err)
	}
	res, err := tsdbrun.QuerySamples(q, tsdbrun.Matchers(nil))
	q.Close()
	fmt.Println("query error:", err)
	if cq, err := r.DB.ChunkQuerier(math.MinInt64, math.MaxInt64); err == nil {
		css := cq.Select(context.Background(), true, nil, tsdbrun.Matchers(nil)...)
		for css.Next() {
			cs := css.At()
			fmt.Printf("chunks of %s:", cs.Labels())
			it := cs.Iterator(nil)
			for it.Next() {
				m := it.At()
				fmt.Printf(" [%d,%d] n=%d enc=%v", m.MinTime, m.MaxTime, m.Chunk.NumSamples(), m.Chunk.Encoding())
			}
			fmt.Println()
		}
		cq.Close()
	}
	if sr, err := wlog.NewSegmentsReader(filepath.Join(r.Dir, "wbl")); err == nil {
		rd := wlog.NewReader(sr)
		dec := record.NewDecoder(labels.NewSymbolTable(), promslog.NewNopLogger())
		for rd.Next() {
			rec := rd.Record()
			switch dec.Type(rec) {
			case record.MmapMarkers:
				m, _ := dec.MmapMarkers(rec, nil)
				fmt.Printf("wbl: markers %+v\n", m)
			case record.Samples:
				m, _ := dec.Samples(rec, nil)
				fmt.Printf("wbl: samples")
				for _, x := range m {
					fmt.Printf(" ref%d@%d", x.Ref, x.T)
				}
				fmt.Println()
			case record.HistogramSamples, record.CustomBucketsHistogramSamples:
				m, _ := dec.HistogramSamples(rec, nil)
				fmt.Printf("wbl: histograms(type %v)", dec.Type(rec))
				for _, x := range m {
					fmt.Printf(" ref%d@%d", x.Ref, x.T)
				}
				fmt.Println()
			case record.FloatHistogramSamples, record.CustomBucketsFloatHistogramSamples:
				m, _ := dec.FloatHistogramSamples(rec, nil)
				fmt.Printf("wbl: floathistograms(type %v)", dec.Type(rec))
				for _, x := range m {
					fmt.Printf(" ref%d@%d", x.Ref, x.T)
				}
				fmt.Println()
			default:
				fmt.Printf("wbl: record type %v\n", dec.Type(rec))
			}
		}
		sr.Close()
	}
	if tr, err := r.DB.Head().Tombstones(); err == nil {
		tr.Iter(func(ref storage.SeriesRef, ivs tombstones.Intervals) error {
			fmt.Printf("head tombstone ref %d: %v\n", ref, ivs)
			return nil
		})
	}
	fmt.Printf("head [%d,%d]\n", r.DB.Head().MinTime(), r.DB.Head().MaxTime())
	for _, b := range r.DB.Blocks() {
		bq, _ := tsdb.NewBlockQuerier(b, math.MinInt64, math.MaxInt64)
		part, _ := tsdbrun.QuerySamples(bq, tsdbrun.Matchers(nil))
		bq.Close()
		fmt.Printf("block %s [%d,%d):", b.Meta().ULID, b.Meta().MinTime, b.Meta().MaxTime)
		for si := 0; si < h.Cfg.NSeries; si++ {
			fmt.Printf(" s%d=", si)
			for _, o := range part[si] {
				fmt.Printf("%d,", o.T)
			}
		}
		fmt.Println()
	}
	for si := 0; si < h.Cfg.NSeries; si++ {
		fmt.Printf("series %d:", si)
		for _, o := range res[si] {
			fmt.Printf(" %d", o.T)
		}
		fmt.Println()
	}
}
