package tsdbhist

import (
	"context"
	"fmt"
	"math"
	"os"
	"os/exec"
	"path/filepath"
	"sort"
	"strings"
	"testing"

	"github.com/prometheus/client_golang/prometheus"
	"github.com/prometheus/common/promslog"
	"github.com/prometheus/prometheus/model/labels"
	"github.com/prometheus/prometheus/tsdb"
	"pgregory.net/rapid"

	"verifharness/internal/ev"
	"verifharness/internal/tsdbrun"
)

// C04 — damaged on-disk data never yields wrong samples.

type c04Case struct {
	H      tsdbrun.History
	Clean  bool
	Target string // wal-last wal-any wbl-last chunks-last checkpoint
	Kind   string // truncate flip zero ff
	Pos    uint32
	Bit    uint8
}

func genC04(t *rapid.T) c04Case {
	f := false
	return c04Case{
		H:      tsdbrun.GenHistory(t, tsdbrun.Bias{MinSteps: 15, MaxSteps: 50, Deletes: 0, NoDeletes: true, Compactions: 3, Reopens: 1, Queries: 0, Snapshot: &f}),
		Clean:  rapid.Bool().Draw(t, "clean"),
		Target: rapid.SampledFrom([]string{"wal-last", "wal-last", "wal-any", "wbl-last", "chunks-last", "checkpoint", "checkpoint"}).Draw(t, "target"),
		Kind:   rapid.SampledFrom([]string{"truncate", "truncate", "flip", "flip", "zero", "ff"}).Draw(t, "kind"),
		Pos:    rapid.Uint32().Draw(t, "pos"),
		Bit:    uint8(rapid.IntRange(0, 7).Draw(t, "bit")),
	}
}

func listFiles(dir string) []string {
	ents, _ := os.ReadDir(dir)
	var out []string
	for _, e := range ents {
		if !e.IsDir() {
			out = append(out, filepath.Join(dir, e.Name()))
		}
	}
	sort.Strings(out)
	return out
}

func c04PickFile(dir, target string, pos uint32) string {
	switch target {
	case "wal-last", "wal-any":
		fs := listFiles(filepath.Join(dir, "wal"))
		if len(fs) == 0 {
			return ""
		}
		if target == "wal-any" {
			return fs[int(pos>>8)%len(fs)]
		}
		return fs[len(fs)-1]
	case "wbl-last":
		fs := listFiles(filepath.Join(dir, "wbl"))
		if len(fs) == 0 {
			return ""
		}
		return fs[len(fs)-1]
	case "chunks-last":
		fs := listFiles(filepath.Join(dir, "chunks_head"))
		if len(fs) == 0 {
			return ""
		}
		return fs[len(fs)-1]
	case "checkpoint":
		ents, _ := os.ReadDir(filepath.Join(dir, "wal"))
		var cps []string
		for _, e := range ents {
			if e.IsDir() && strings.HasPrefix(e.Name(), "checkpoint.") && !strings.HasSuffix(e.Name(), ".tmp") {
				cps = append(cps, filepath.Join(dir, "wal", e.Name()))
			}
		}
		if len(cps) == 0 {
			return ""
		}
		sort.Strings(cps)
		fs := listFiles(cps[len(cps)-1])
		if len(fs) == 0 {
			return ""
		}
		return fs[int(pos>>8)%len(fs)]
	}
	return ""
}

func runC04(c c04Case, rec *ev.Rec) error {
	r, err := tsdbrun.RunAll(c.H, rec, nil)
	if r != nil {
		defer r.Finish()
	}
	if err != nil || r.SoundnessTrigger() {
		rec.Discard() // the model must be exact for what follows
		return nil
	}
	if c.Clean {
		if err := r.DB.Close(); err != nil {
			return ev.Failf("Close: %v", err)
		}
		r.DB = nil
	}
	base, err := os.MkdirTemp("", "c04")
	if err != nil {
		return nil
	}
	defer os.RemoveAll(base)
	dirD := filepath.Join(base, "D")
	if out, err := exec.Command("cp", "-r", r.Dir, dirD).CombinedOutput(); err != nil {
		return ev.Failf("cp: %v %s", err, out)
	}
	os.Remove(filepath.Join(dirD, "lock"))
	// samples held by persistent blocks must survive any damage to the logs (lower bound)
	blockRes := tsdbrun.Result{}
	ents, _ := os.ReadDir(dirD)
	for _, e := range ents {
		if !e.IsDir() || len(e.Name()) != 26 {
			continue
		}
		blk, err := tsdb.OpenBlock(promslog.NewNopLogger(), filepath.Join(dirD, e.Name()), nil, nil)
		if err != nil {
			continue
		}
		if q, err := tsdb.NewBlockQuerier(blk, math.MinInt64, math.MaxInt64); err == nil {
			part, _ := tsdbrun.QuerySamples(q, tsdbrun.Matchers(nil))
			q.Close()
			for k, v := range part {
				blockRes[k] = append(blockRes[k], v...)
			}
		}
		blk.Close()
	}
	file := c04PickFile(dirD, c.Target, c.Pos)
	if file == "" {
		c.Target = "wal-last"
		file = c04PickFile(dirD, c.Target, c.Pos)
	}
	if file == "" {
		rec.Discard()
		return nil
	}
	b, err := os.ReadFile(file)
	if err != nil || len(b) == 0 {
		rec.Discard()
		return nil
	}
	p := int(c.Pos) % len(b)
	inPadding := b[p] == 0
	switch c.Kind {
	case "truncate":
		b = b[:p]
	case "flip":
		b[p] ^= 1 << c.Bit
	case "zero":
		if b[p] == 0 {
			b[p] = 1
		} else {
			b[p] = 0
		}
	case "ff":
		if b[p] == 0xff {
			b[p] = 0xfe
		} else {
			b[p] = 0xff
		}
	}
	if err := os.WriteFile(file, b, 0o644); err != nil {
		return nil
	}
	rel, _ := filepath.Rel(dirD, file)
	rec.Class("target:" + c.Target)
	rec.Class("kind:" + c.Kind)
	before, err := treeHash(dirD)
	if err != nil {
		return nil
	}
	sizes := map[string]int64{}
	for k := range before {
		if fi, err := os.Stat(filepath.Join(dirD, k)); err == nil {
			sizes[k] = fi.Size()
		}
	}
	desc := fmt.Sprintf("damage: %s of %s at offset %d (clean shutdown=%v)", c.Kind, rel, p, c.Clean)
	reg := prometheus.NewRegistry()
	db, oerr := tsdb.Open(dirD, promslog.NewNopLogger(), reg, c.H.Cfg.Options(), nil)
	if oerr != nil {
		rec.Class("open-refused")
		after, _ := treeHash(dirD)
		var bad []string
		for k, v := range before {
			if k == rel || k == "lock" {
				continue
			}
			if w, ok := after[k]; !ok {
				bad = append(bad, fmt.Sprintf("removed %s (%d bytes)", k, sizes[k]))
			} else if w != v {
				bad = append(bad, "changed "+k)
			}
		}
		if len(bad) > 0 {
			// Control: what does opening (and closing) the same directory WITHOUT the damage remove
			// or rewrite? Self-healing of a state the history left behind (e.g. m-mapped chunk files
			// that fail the mapper's own consistency check) is not an effect of the damage.
			dirC := filepath.Join(base, "C")
			if out, err := exec.Command("cp", "-r", r.Dir, dirC).CombinedOutput(); err != nil {
				return ev.Failf("cp: %v %s", err, out)
			}
			os.Remove(filepath.Join(dirC, "lock"))
			ctlBefore, _ := treeHash(dirC)
			touched := map[string]bool{}
			note := func() {
				now, _ := treeHash(dirC)
				for k, v := range ctlBefore {
					if w, ok := now[k]; !ok || w != v {
						touched[k] = true
					}
				}
			}
			if cdb, cerr := tsdb.Open(dirC, promslog.NewNopLogger(), prometheus.NewRegistry(), c.H.Cfg.Options(), nil); cerr == nil {
				cdb.DisableCompactions()
				note() // right after Open: files it deleted may be written again (identically) later
				cdb.Close()
			}
			note()
			kept := bad[:0]
			for _, b := range bad {
				name := strings.Fields(b)[1]
				if touched[name] {
					rec.Class("refused-open-touched-what-a-healthy-open-touches")
					continue
				}
				kept = append(kept, b)
			}
			bad = kept
		}
		sort.Strings(bad)
		if len(bad) > 0 {
			sig := ""
			msg := fmt.Sprintf("%s: tsdb.Open failed (%v) and did not leave the undamaged files intact: %s\nhistory:\n%s", desc, oerr, strings.Join(bad, ", "), r.TraceString())
			if sig != "" {
				return ev.FailSig(sig, "%s", msg)
			}
			return ev.Failf("%s", msg)
		}
		if !inPadding {
			rec.NonTrivial()
		}
		return nil
	}
	rec.Class("open-ok")
	db.DisableCompactions()
	defer func() {
		if db != nil {
			db.Close()
		}
	}()
	q, err := db.Querier(math.MinInt64, math.MaxInt64)
	if err != nil {
		return ev.Failf("%s: Querier: %v", desc, err)
	}
	res, qerr := tsdbrun.QuerySamples(q, tsdbrun.Matchers(nil))
	q.Close()
	if qerr != nil {
		return ev.Failf("%s: query after a successful open failed: %v\nhistory:\n%s", desc, qerr, r.TraceString())
	}
	// soundness: nothing but committed samples with their own values
	r.SoundOnly = true
	old := r.DB
	cerr := r.Compare("query after "+desc, res, math.MinInt64, math.MaxInt64, nil)
	r.DB = old
	if cerr != nil {
		return cerr
	}
	// lower bound: block data
	for si, obs := range blockRes {
		have := map[int64]string{}
		for _, o := range res[si] {
			have[o.T] = o.String()
		}
		for _, o := range obs {
			if have[o.T] == "" {
				return ev.Failf("%s: sample series %d t=%d %s held by an undamaged block is missing after the open\nhistory:\n%s", desc, si, o.T, o.String(), r.TraceString())
			}
		}
	}
	// the database must accept and keep further writes
	maxT := int64(math.MinInt64)
	for _, obs := range res {
		for _, o := range obs {
			if o.T > maxT {
				maxT = o.T
			}
		}
	}
	if hm := db.Head().MaxTime(); hm > maxT {
		maxT = hm
	}
	// new samples must lie ahead of the persisted blocks (a block can end well after its last sample)
	for _, b := range db.Blocks() {
		if mt := b.Meta().MaxTime; mt > maxT {
			maxT = mt
		}
	}
	if maxT == math.MinInt64 {
		maxT = 0
	}
	nl := labels.FromStrings("__name__", "after_damage")
	for i := int64(1); i <= 2; i++ {
		app := db.Appender(context.Background())
		if _, err := app.Append(0, nl, maxT+i*10, float64(i)); err != nil {
			app.Rollback()
			return ev.Failf("%s: append after open failed: %v", desc, err)
		}
		if err := app.Commit(); err != nil {
			return ev.Failf("%s: commit after open failed: %v", desc, err)
		}
	}
	if err := db.Close(); err != nil {
		db = nil
		return ev.Failf("%s: Close after open failed: %v", desc, err)
	}
	db = nil
	db2, err := tsdb.Open(dirD, promslog.NewNopLogger(), prometheus.NewRegistry(), c.H.Cfg.Options(), nil)
	if err != nil {
		return ev.Failf("%s: second open failed: %v\nhistory:\n%s", desc, err, r.TraceString())
	}
	defer db2.Close()
	q2, err := db2.Querier(math.MinInt64, math.MaxInt64)
	if err != nil {
		return ev.Failf("%s: Querier on second open: %v", desc, err)
	}
	defer q2.Close()
	ss := q2.Select(context.Background(), false, nil, labels.MustNewMatcher(labels.MatchEqual, "__name__", "after_damage"))
	n := 0
	var got []string
	foreignOOO := 0
	own := 0
	for ss.Next() {
		it := ss.At().Iterator(nil)
		for vt := it.Next(); vt != 0; vt = it.Next() {
			ts := it.AtT()
			got = append(got, fmt.Sprintf("%d", ts))
			n++
			if ts == maxT+10 || ts == maxT+20 {
				own++
				continue
			}
			for _, ms := range r.M.Series {
				if p := ms.Pts[ts]; p != nil {
					foreignOOO++
					break
				}
			}
		}
	}
	if foreignOOO >= 1 && foreignOOO == n-own && (strings.HasPrefix(c.Target, "wal") || c.Target == "checkpoint") {
		return ev.FailSig("wal-repair-reissues-series-ref", "%s: after the WAL repair a new series was given a ref number that samples in the untouched WBL / head chunk files still use; after the next restart those samples (timestamps %v) are returned under the new series\nhistory:\n%s", desc, got, r.TraceString())
	}
	if n != 2 {
		return ev.Failf("%s: the 2 samples committed after the repair (t=%d,%d) read back as %v after the next restart\nhistory:\n%s", desc, maxT+10, maxT+20, got, r.TraceString())
	}
	if !inPadding {
		rec.NonTrivial()
	}
	return nil
}

func TestC04(t *testing.T) {
	ev.Check(t, "C04",
		"a C01-style history leaves a directory that is copied (after Close or while open); one file (newest or any WAL segment, newest WBL segment, newest head-chunk file, a file of the newest checkpoint) is truncated at a drawn offset or has one byte flipped/zeroed/set; the copy is reopened read-write. Either Open fails and every other pre-existing file is byte-identical, or it succeeds and every returned sample is a committed sample with its own value, all samples held by blocks are present, two further commits are accepted and survive another restart. Non-trivial: the damaged byte is not zero padding.",
		genC04, runC04)
}
