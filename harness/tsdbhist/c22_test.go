package tsdbhist

import (
	"testing"

	"pgregory.net/rapid"

	"verifharness/internal/ev"
	"verifharness/internal/tsdbrun"
)

// C22 — samples are never attributed to the wrong series.
func genC22(t *rapid.T) tsdbrun.History {
	return tsdbrun.GenHistory(t, tsdbrun.Bias{MinSteps: 20, MaxSteps: 70, Deletes: 0, Compactions: 4, Reopens: 5, Queries: 0, Churn: 4, TagValues: true})
}

func runC22(h tsdbrun.History, rec *ev.Rec) error {
	r, err := tsdbrun.RunAll(h, rec, func(r *tsdbrun.Run) { r.AttributionOnly = true })
	if r != nil {
		defer r.Finish()
		d := r.Did
		for _, k := range []string{"evictstale", "evictsel", "crashreopen", "reopen", "old-ref", "evicted-series", "compact", "flush"} {
			if d[k] > 0 {
				rec.Count("has-"+k, 1)
			}
		}
		if r.Cfg.FastStartup {
			rec.Class("fast-startup")
		}
		if (d["reopen"]+d["crashreopen"] > 0) && (d["evicted-series"] > 0 || d["compact"]+d["flush"] > 0) && d["old-ref"] > 0 {
			rec.NonTrivial()
		}
		if err != nil && r.SnapRefRisk {
			if v, ok := err.(*ev.Violation); ok && v.Sig == "" {
				return ev.FailSig("snapshot-restart-reissues-series-ref", "%s", v.Msg)
			}
		}
	}
	return err
}

func TestC22(t *testing.T) {
	ev.Check(t, "C22",
		"C01-style histories biased to series churn: every appended value identifies its series (float = series*1000+k, histogram id = series mod 5); series are garbage-collected by head compaction, evicted by CompactStaleHead / CompactSelectedSeries, the database is reopened cleanly and uncleanly (copy of the live directory), with fast startup on/off and snapshot on/off, and appends reuse the ref last returned for their label set (possibly outdated); after every step every returned sample must be a (timestamp, value) that was appended to exactly that label set (soundness of attribution; completeness is C01's business). Non-trivial: a restart, a series garbage collection or eviction, and an append with an old ref all occurred.",
		genC22, runC22)
}
