package tsdbhist

import (
	"fmt"
	"math"
	"strings"
	"testing"
	"time"

	"github.com/prometheus/prometheus/storage"
	"github.com/prometheus/prometheus/util/verifhook"
	"pgregory.net/rapid"

	"verifharness/internal/ev"
	"verifharness/internal/tsdbrun"
)

// C06 — queries racing with compaction see each sample exactly once.

type c06Action struct {
	K    string // open | drain | resume
	Q    int    `json:",omitempty"`
	Mint int64  `json:",omitempty"` // offsets relative to the history's base time
	Maxt int64  `json:",omitempty"`
	Full bool   `json:",omitempty"`
}

type c06Case struct {
	H           tsdbrun.History
	Maintenance []string // compact flush compactooo cleantomb
	Actions     []c06Action
}

func genC06(t *rapid.T) c06Case {
	f := false
	c := c06Case{H: tsdbrun.GenHistory(t, tsdbrun.Bias{MinSteps: 20, MaxSteps: 50, Deletes: 1, Compactions: 1, Queries: 0, ForceOOO: true, Snapshot: &f})}
	// drop reopen steps: they are not needed here and cost time
	ops := c.H.Ops[:0]
	for _, op := range c.H.Ops {
		if op.K != "reopen" {
			ops = append(ops, op)
		}
	}
	c.H.Ops = ops
	n := rapid.IntRange(1, 3).Draw(t, "nmaint")
	for i := 0; i < n; i++ {
		c.Maintenance = append(c.Maintenance, rapid.SampledFrom([]string{"compact", "compact", "flush", "compactooo", "cleantomb"}).Draw(t, "maint"))
	}
	na := rapid.IntRange(8, 40).Draw(t, "nactions")
	nq := 0
	for i := 0; i < na; i++ {
		switch rapid.IntRange(0, 9).Draw(t, "akind") {
		case 0, 1, 2:
			a := c06Action{K: "open", Q: nq, Full: rapid.IntRange(0, 2).Draw(t, "full") == 0}
			a.Mint = int64(rapid.IntRange(-3000, 8000).Draw(t, "qmint"))
			a.Maxt = a.Mint + int64(rapid.IntRange(0, 6000).Draw(t, "qlen"))
			c.Actions = append(c.Actions, a)
			nq++
		case 3, 4:
			if nq > 0 {
				c.Actions = append(c.Actions, c06Action{K: "drain", Q: rapid.IntRange(0, nq-1).Draw(t, "q")})
			}
		default:
			c.Actions = append(c.Actions, c06Action{K: "resume"})
		}
	}
	return c
}

type c06Querier struct {
	q          storage.Querier
	mint, maxt int64
	openedAt   string
	duringPark bool
	drained    bool
}

func runC06(c c06Case, rec *ev.Rec) error {
	r, err := tsdbrun.RunAll(c.H, rec, nil)
	if r != nil {
		defer r.Finish()
	}
	if err != nil || r.Did["stale-reorder"] > 0 || r.OOODeleteSeen() || r.DeleteShadowSeen() {
		rec.Discard() // the model must be exact for the racing phase (listed delete findings make it inexact)
		return nil
	}
	// base time of the history: smallest committed timestamp
	base := int64(math.MaxInt64)
	for _, s := range r.M.Series {
		for t := range s.Pts {
			if t < base {
				base = t
			}
		}
	}
	if base == math.MaxInt64 {
		rec.Discard()
		return nil
	}
	var trace []string
	parked := make(chan string)
	resume := make(chan struct{})
	done := make(chan struct{})
	active := false
	verifhook.Set(func(site string) {
		if !active {
			return
		}
		if strings.HasPrefix(site, "db.") || strings.HasPrefix(site, "head.truncate") || strings.HasPrefix(site, "compact.write") {
			select {
			case parked <- site:
			case <-done: // the case is over: nobody schedules any more, never block the database
				return
			}
			select {
			case <-resume:
			case <-done:
			}
		}
	})
	defer verifhook.Set(nil)
	defer close(done)
	queriers := map[int]*c06Querier{}
	closeAll := func() {
		for _, q := range queriers {
			if !q.drained {
				q.drained = true
				q.q.Close()
			}
		}
	}
	defer closeAll()
	fail := func(format string, a ...any) error {
		return ev.Failf("%s\nschedule:\n  %s\nhistory:\n%s", fmt.Sprintf(format, a...), strings.Join(trace, "\n  "), r.TraceString())
	}
	drain := func(qi int, q *c06Querier) error {
		q.drained = true
		res, qerr := tsdbrun.QuerySamples(q.q, tsdbrun.Matchers(nil))
		q.q.Close()
		trace = append(trace, fmt.Sprintf("drain querier %d [%d,%d] opened %s", qi, q.mint, q.maxt, q.openedAt))
		if qerr != nil {
			return fail("querier %d: %v", qi, qerr)
		}
		if cerr := r.Compare(fmt.Sprintf("querier %d opened %s", qi, q.openedAt), res, q.mint, q.maxt, nil); cerr != nil {
			return fail("%s", cerr.Error())
		}
		return nil
	}
	ai := 0
	nontrivial := false
	for mi, m := range c.Maintenance {
		done := make(chan error, 1)
		active = true
		go func() { done <- r.Exec(tsdbrun.Op{K: m}) }()
		site := ""
		finished := false
		wait := func() error {
			for {
				select {
				case site = <-parked:
					trace = append(trace, fmt.Sprintf("%s #%d parked at %s", m, mi, site))
					return nil
				case e := <-done:
					finished = true
					active = false
					trace = append(trace, fmt.Sprintf("%s #%d returned %v", m, mi, e))
					if e != nil {
						return fail("%s failed while queries were open: %v", m, e)
					}
					return nil
				case <-time.After(1500 * time.Millisecond):
					// neither parked nor finished: waiting for open readers; drain them all
					open := 0
					for qi, q := range queriers {
						if !q.drained {
							open++
							if q.duringPark {
								nontrivial = true
							}
							if e := drain(qi, q); e != nil {
								return e
							}
						}
					}
					if open == 0 {
						// no reader left and still not progressing: give it a generous bound
						select {
						case site = <-parked:
							trace = append(trace, fmt.Sprintf("%s #%d parked at %s", m, mi, site))
							return nil
						case e := <-done:
							finished = true
							active = false
							if e != nil {
								return fail("%s failed: %v", m, e)
							}
							return nil
						case <-time.After(60 * time.Second):
							rec.Discard()
							return fmt.Errorf("inconclusive")
						}
					}
				}
			}
		}
		if e := wait(); e != nil {
			if e.Error() == "inconclusive" {
				return nil
			}
			return e
		}
		for !finished {
			var a c06Action
			if ai < len(c.Actions) {
				a = c.Actions[ai]
				ai++
			} else {
				a = c06Action{K: "resume"}
			}
			switch a.K {
			case "open":
				mint, maxt := base+a.Mint, base+a.Maxt
				if a.Full {
					mint, maxt = math.MinInt64, math.MaxInt64
				}
				q, e := r.DB.Querier(mint, maxt)
				if e != nil {
					return fail("Querier(%d,%d) while %s is parked at %s: %v", mint, maxt, m, site, e)
				}
				queriers[a.Q] = &c06Querier{q: q, mint: mint, maxt: maxt, openedAt: fmt.Sprintf("while %s #%d parked at %s", m, mi, site), duringPark: true}
				trace = append(trace, fmt.Sprintf("open querier %d [%d,%d]", a.Q, mint, maxt))
				rec.Class("opened-at:" + site)
			case "drain":
				if q := queriers[a.Q]; q != nil && !q.drained {
					if e := drain(a.Q, q); e != nil {
						return e
					}
				}
			case "resume":
				resume <- struct{}{}
				if e := wait(); e != nil {
					if e.Error() == "inconclusive" {
						return nil
					}
					return e
				}
			}
		}
		// queriers opened during this maintenance and drained after it finished
		for qi, q := range queriers {
			if !q.drained {
				nontrivial = nontrivial || q.duringPark
				if e := drain(qi, q); e != nil {
					return e
				}
			}
		}
		if e := r.CheckQuery(math.MinInt64, math.MaxInt64, nil); e != nil {
			return fail("after %s: %s", m, e.Error())
		}
	}
	if nontrivial {
		rec.NonTrivial()
	}
	return nil
}

func TestC06(t *testing.T) {
	ev.Check(t, "C06",
		"a C01-style history (in-order and out-of-order data, deletes, several block ranges) is built first; then 1-3 maintenance calls (db.Compact, full head flush, CompactOOOHead, CleanTombstones) run in a goroutine that parks at every hook site of the compaction/truncation/reload/delete protocols while a drawn schedule opens queriers over drawn ranges, drains them later and resumes the maintenance; exactly one goroutine runs at a time, and when the maintenance blocks waiting for readers all open queriers are drained. Every querier, whenever opened and drained, must return exactly the model's samples in its range, once each. Non-trivial: a querier opened while maintenance was parked was drained after the maintenance had moved on.",
		genC06, runC06)
}
