package scrapechk

import (
	"context"
	"fmt"
	"sort"

	"github.com/prometheus/prometheus/model/exemplar"
	"github.com/prometheus/prometheus/model/histogram"
	"github.com/prometheus/prometheus/model/labels"
	"github.com/prometheus/prometheus/model/metadata"
	"github.com/prometheus/prometheus/storage"

	"verifharness/internal/gen"
)

// ---------------------------------------------------------------------------
// Sample values as the storage sees them.

// sval is a float (bits) or a native histogram (kept as float histogram; integer
// histograms are converted, which is exact).
type sval struct {
	bits uint64
	fh   *histogram.FloatHistogram
}

func floatVal(f float64) sval { return sval{bits: gen.B(f)} }

func (v sval) isHist() bool { return v.fh != nil }

func (v sval) isStale() bool { return v.fh == nil && v.bits == gen.StaleNaNBits }

func (v sval) equal(o sval) bool {
	if v.isHist() != o.isHist() {
		return false
	}
	if !v.isHist() {
		return v.bits == o.bits
	}
	return gen.FloatHistSemantic(v.fh, o.fh, false) == ""
}

func (v sval) String() string {
	if v.isHist() {
		return fmt.Sprintf("hist{schema=%d count=%g sum=%g pos=%d neg=%d}", v.fh.Schema, v.fh.Count, v.fh.Sum, len(v.fh.PositiveBuckets), len(v.fh.NegativeBuckets))
	}
	if v.isStale() {
		return "STALE"
	}
	return fmt.Sprintf("%g", gen.F(v.bits))
}

// ---------------------------------------------------------------------------
// ruleBook: the ordering rules of an in-order storage (no out-of-order window),
// as documented for storage.Appender: per series a sample is accepted if it is newer
// than the newest sample of the series, an identical sample at the newest timestamp is
// accepted as a no-op, a different value at the newest timestamp is
// ErrDuplicateSampleForTimestamp, anything older is ErrOutOfOrderSample. A batch sees
// its own pending samples; Rollback forgets them.
//
// The recording storage handed to the scrape loop and the reference model each own
// an instance; this is the environment of the scrape loop, not code under test.

type lastSample struct {
	t   int64
	v   sval
	any bool
}

type ruleBook struct {
	committed map[string]lastSample
	pending   map[string]lastSample
}

func newRuleBook() *ruleBook {
	return &ruleBook{committed: map[string]lastSample{}, pending: map[string]lastSample{}}
}

const (
	accNew = iota
	accNoop
	rejDup
	rejOOO
)

func (b *ruleBook) attempt(key string, t int64, v sval) int {
	acc := b.peek(key, t, v)
	if acc == accNew {
		b.pending[key] = lastSample{t: t, v: v, any: true}
	}
	return acc
}

// peek is attempt without recording the sample.
func (b *ruleBook) peek(key string, t int64, v sval) int {
	last, ok := b.pending[key]
	if !ok {
		last = b.committed[key]
	}
	if last.any {
		switch {
		case t < last.t:
			return rejOOO
		case t == last.t:
			if last.v.equal(v) {
				return accNoop
			}
			return rejDup
		}
	}
	return accNew
}

func (b *ruleBook) commit() {
	for k, v := range b.pending {
		b.committed[k] = v
	}
	b.pending = map[string]lastSample{}
}

func (b *ruleBook) rollback() { b.pending = map[string]lastSample{} }

// ---------------------------------------------------------------------------
// Recording storage.

type recSample struct {
	Key string
	L   labels.Labels
	T   int64
	V   sval
}

func (s recSample) String() string { return fmt.Sprintf("%s @%d = %s", s.L.String(), s.T, s.V) }

type recSeries struct {
	key string
	l   labels.Labels
	ref storage.SeriesRef // 0: no valid reference at the moment
}

type recSession struct {
	id      int
	closed  bool
	samples []recSample // accepted as new, in order
}

// recStore implements storage.Appendable and storage.AppendableV2 and records
// everything the scrape loop does with them.
type recStore struct {
	book    *ruleBook
	series  map[string]*recSeries
	byRef   map[storage.SeriesRef]*recSeries
	nextRef storage.SeriesRef

	sessions   int
	open       *recSession
	commits    int
	rollbacks  int
	appends    int
	committed  []recSample // accepted samples of committed sessions since the last take()
	rolledBack int         // accepted samples thrown away by Rollback since the last take()
	problems   []string    // breaches of the Appender contract by the caller
	log        []string    // human readable trace of the current scrape (bounded)
}

func newRecStore() *recStore {
	return &recStore{book: newRuleBook(), series: map[string]*recSeries{}, byRef: map[storage.SeriesRef]*recSeries{}, nextRef: 1}
}

func (s *recStore) problem(format string, a ...any) {
	if len(s.problems) < 10 {
		s.problems = append(s.problems, fmt.Sprintf(format, a...))
	}
}

func (s *recStore) trace(format string, a ...any) {
	if len(s.log) < 400 {
		s.log = append(s.log, fmt.Sprintf(format, a...))
	}
}

// invalidateRefs makes every reference handed out so far unknown to the storage, as a
// head does after garbage-collecting series: the next append by labels gets a new one.
func (s *recStore) invalidateRefs() {
	for _, se := range s.series {
		se.ref = 0
	}
	s.byRef = map[storage.SeriesRef]*recSeries{}
	s.trace("-- storage invalidated all references")
}

type takeResult struct {
	samples                      []recSample
	sessions, commits, rollbacks int
	appends, rolledBack          int
	stillOpen                    bool
	problems                     []string
	log                          []string
}

// take returns what happened since the previous take.
func (s *recStore) take() takeResult {
	r := takeResult{samples: s.committed, sessions: s.sessions, commits: s.commits, rollbacks: s.rollbacks,
		appends: s.appends, rolledBack: s.rolledBack, stillOpen: s.open != nil && !s.open.closed, problems: s.problems, log: s.log}
	s.committed, s.sessions, s.commits, s.rollbacks, s.appends, s.rolledBack, s.problems, s.log = nil, 0, 0, 0, 0, 0, nil, nil
	return r
}

func (s *recStore) begin() *recSession {
	if s.open != nil && !s.open.closed {
		s.problem("appender #%d opened while appender #%d is neither committed nor rolled back", s.sessions+1, s.open.id)
	}
	s.sessions++
	s.open = &recSession{id: s.sessions}
	s.trace("appender #%d opened", s.open.id)
	return s.open
}

func (s *recStore) doAppend(se *recSession, ref storage.SeriesRef, l labels.Labels, t int64, v sval) (storage.SeriesRef, error) {
	s.appends++
	if se.closed {
		s.problem("Append on appender #%d after Commit/Rollback", se.id)
		return 0, fmt.Errorf("appender closed")
	}
	if l.IsEmpty() || !l.Has(labels.MetricName) {
		s.problem("Append with label set %s (no metric name)", l.String())
	}
	if dup, ok := l.HasDuplicateLabelNames(); ok {
		s.problem("Append with duplicate label name %q in %s", dup, l.String())
	}
	key := gen.FromLabels(l).Key()
	var rs *recSeries
	if ref != 0 {
		if byRef, ok := s.byRef[ref]; ok {
			// A head trusts a valid reference and does not look at the labels: a mismatch
			// would attribute the sample to another series.
			if byRef.key != key {
				s.problem("Append(ref=%d, %s): reference belongs to %s", ref, l.String(), byRef.l.String())
			}
			rs = byRef
		}
	}
	if rs == nil {
		rs = s.series[key]
		if rs == nil {
			rs = &recSeries{key: key, l: l.Copy()}
			s.series[key] = rs
		}
		if rs.ref == 0 {
			rs.ref = s.nextRef
			s.nextRef++
			s.byRef[rs.ref] = rs
		}
	}
	switch s.book.attempt(rs.key, t, v) {
	case accNew:
		se.samples = append(se.samples, recSample{Key: rs.key, L: rs.l, T: t, V: v})
		s.trace("  #%d append ref=%d %s @%d = %s -> ref %d", se.id, ref, l.String(), t, v, rs.ref)
		return rs.ref, nil
	case accNoop:
		s.trace("  #%d append ref=%d %s @%d = %s -> identical to newest sample (no-op), ref %d", se.id, ref, l.String(), t, v, rs.ref)
		return rs.ref, nil
	case rejDup:
		s.trace("  #%d append ref=%d %s @%d = %s -> ErrDuplicateSampleForTimestamp", se.id, ref, l.String(), t, v)
		return 0, storage.ErrDuplicateSampleForTimestamp
	default:
		s.trace("  #%d append ref=%d %s @%d = %s -> ErrOutOfOrderSample", se.id, ref, l.String(), t, v)
		return 0, storage.ErrOutOfOrderSample
	}
}

func (s *recStore) doCommit(se *recSession) error {
	if se.closed {
		s.problem("Commit on appender #%d after Commit/Rollback", se.id)
		return fmt.Errorf("appender closed")
	}
	se.closed = true
	s.commits++
	s.book.commit()
	s.committed = append(s.committed, se.samples...)
	s.trace("appender #%d committed (%d samples)", se.id, len(se.samples))
	return nil
}

func (s *recStore) doRollback(se *recSession) error {
	if se.closed {
		s.problem("Rollback on appender #%d after Commit/Rollback", se.id)
		return fmt.Errorf("appender closed")
	}
	se.closed = true
	s.rollbacks++
	s.rolledBack += len(se.samples)
	s.book.rollback()
	s.trace("appender #%d rolled back (%d samples)", se.id, len(se.samples))
	return nil
}

func histVal(h *histogram.Histogram, fh *histogram.FloatHistogram) sval {
	if fh != nil {
		return sval{fh: fh.Copy()}
	}
	return sval{fh: h.ToFloat(nil)}
}

// v1

type recAppV1 struct {
	s  *recStore
	se *recSession
}

func (s *recStore) Appender(context.Context) storage.Appender { return &recAppV1{s: s, se: s.begin()} }

func (a *recAppV1) Append(ref storage.SeriesRef, l labels.Labels, t int64, v float64) (storage.SeriesRef, error) {
	return a.s.doAppend(a.se, ref, l, t, floatVal(v))
}

func (a *recAppV1) AppendHistogram(ref storage.SeriesRef, l labels.Labels, t int64, h *histogram.Histogram, fh *histogram.FloatHistogram) (storage.SeriesRef, error) {
	if h == nil && fh == nil {
		a.s.problem("AppendHistogram without histogram for %s", l.String())
		return 0, fmt.Errorf("no histogram")
	}
	return a.s.doAppend(a.se, ref, l, t, histVal(h, fh))
}

func (a *recAppV1) AppendExemplar(ref storage.SeriesRef, _ labels.Labels, _ exemplar.Exemplar) (storage.SeriesRef, error) {
	return ref, nil
}

func (a *recAppV1) UpdateMetadata(ref storage.SeriesRef, _ labels.Labels, _ metadata.Metadata) (storage.SeriesRef, error) {
	return ref, nil
}

func (a *recAppV1) AppendSTZeroSample(ref storage.SeriesRef, _ labels.Labels, _, _ int64) (storage.SeriesRef, error) {
	return ref, nil
}

func (a *recAppV1) AppendHistogramSTZeroSample(ref storage.SeriesRef, _ labels.Labels, _, _ int64, _ *histogram.Histogram, _ *histogram.FloatHistogram) (storage.SeriesRef, error) {
	return ref, nil
}

func (a *recAppV1) SetOptions(*storage.AppendOptions) {}
func (a *recAppV1) Commit() error                     { return a.s.doCommit(a.se) }
func (a *recAppV1) Rollback() error                   { return a.s.doRollback(a.se) }

// v2

type recAppV2 struct {
	s  *recStore
	se *recSession
}

func (s *recStore) AppenderV2(context.Context) storage.AppenderV2 {
	return &recAppV2{s: s, se: s.begin()}
}

func (a *recAppV2) Append(ref storage.SeriesRef, l labels.Labels, _, t int64, v float64, h *histogram.Histogram, fh *histogram.FloatHistogram, _ storage.AOptions) (storage.SeriesRef, error) {
	if h != nil || fh != nil {
		return a.s.doAppend(a.se, ref, l, t, histVal(h, fh))
	}
	return a.s.doAppend(a.se, ref, l, t, floatVal(v))
}

func (a *recAppV2) Commit() error   { return a.s.doCommit(a.se) }
func (a *recAppV2) Rollback() error { return a.s.doRollback(a.se) }

// sortSamples orders by series key, then timestamp.
func sortSamples(s []recSample) {
	sort.SliceStable(s, func(i, j int) bool {
		if s[i].Key != s[j].Key {
			return s[i].Key < s[j].Key
		}
		return s[i].T < s[j].T
	})
}
