package scrapechk

import (
	"errors"
	"fmt"
	"os"
	"sort"
	"strings"
	"testing"
	"time"

	"github.com/prometheus/common/model"
	"pgregory.net/rapid"

	"github.com/prometheus/prometheus/config"
	"github.com/prometheus/prometheus/model/histogram"
	"github.com/prometheus/prometheus/model/labels"
	"github.com/prometheus/prometheus/scrape"
	"github.com/prometheus/prometheus/storage"

	"verifharness/internal/ev"
	"verifharness/internal/gen"
)

// C37 — Scraping stores exactly the exposed samples and marks vanished series stale.
//
// A generated scrape history (bodies in the text, OpenMetrics and protobuf formats with
// series churn, repeated and re-spelled series, explicit timestamps, native histograms;
// transport failures, malformed bodies, limits; finally target removal) is driven through
// the real scrape loop (scrape.VerifLoop, build tag verif) one scrape at a time at
// explicit scrape times against a recording storage. After every scrape the committed
// samples are compared with the reference model in model_test.go.

// ---------------------------------------------------------------------------
// Generator.

type c37Spec struct {
	name   string
	labels [][2]string
	comma  bool
	ts     bool
	hist   bool
	pres   int // present in a scrape when a draw in [0,9] is below this
}

var c37LabelNames = []string{"a", "a", "b", "b", "c", "job", "instance", "long_label_name"}
var c37LabelValues = []string{"1", "1", "2", "3", "x y", "ü", "a-rather-long-value"}

// chance draws true with probability of roughly n/d (rapid's integer draws are heavily
// biased towards small values, sampling from an explicit slice is close to uniform).
func chance(t *rapid.T, label string, n, d int) bool {
	opts := make([]bool, d)
	for i := d - n; i < d; i++ {
		opts[i] = true
	}
	return rapid.SampledFrom(opts).Draw(t, label)
}

func genC37Rules(t *rapid.T) []c37Rule {
	templates := []c37Rule{
		{Action: "drop", Source: []string{"__name__"}, Regex: "m3"},
		{Action: "drop", Source: []string{"a"}, Regex: "2"},
		{Action: "keep", Source: []string{"b"}, Regex: "|1|2"},
		{Action: "labeldrop", Regex: "b"},
		{Action: "labeldrop", Regex: "c|long_label_name"},
		{Action: "replace", Source: []string{"__name__"}, Regex: "m2", Target: "__name__", Repl: "m1", ReplSet: true},
		{Action: "replace", Source: []string{"a"}, Regex: "(.+)", Target: "c", Repl: "c$1", ReplSet: true},
		{Action: "replace", Source: []string{"a"}, Regex: "3", Target: "__name__", Repl: "", ReplSet: true},
		{Action: "replace", Source: []string{"__name__", "b"}, Regex: "m1;(.+)", Target: "merged_with_a_long_name", Repl: "$1", ReplSet: true},
		{Action: "labelmap", Regex: "(b)", Repl: "bb_$1", ReplSet: true},
		{Action: "lowercase", Source: []string{"c"}, Target: "c"},
	}
	n := rapid.SampledFrom([]int{0, 0, 0, 1, 1, 2}).Draw(t, "nrules")
	var out []c37Rule
	for i := 0; i < n; i++ {
		out = append(out, rapid.SampledFrom(templates).Draw(t, "rule"))
	}
	return out
}

func genC37(t *rapid.T) c37Case {
	c := c37Case{
		V2:              rapid.Bool().Draw(t, "v2"),
		HonorLabels:     rapid.Bool().Draw(t, "honor_labels"),
		HonorTimestamps: chance(t, "honor_ts", 4, 5),
		TrackTS:         chance(t, "track_ts", 2, 5),
		Legacy:          chance(t, "legacy", 1, 8),
		Fallback:        chance(t, "fallback", 1, 3),
		T0:              1_600_000_000_000 + int64(rapid.IntRange(0, 1_000_000).Draw(t, "t0")),
		Rules:           genC37Rules(t),
	}
	c.Target = gen.Lset{{"instance", "h:1"}, {"job", "j"}}
	if chance(t, "target_a", 1, 4) {
		c.Target = gen.Lset{{"a", "T"}, {"instance", "h:1"}, {"job", "j"}}
	}
	defFormat := rapid.SampledFrom([]string{"text", "text", "om", "proto"}).Draw(t, "format")

	// The pool of series the target may expose.
	names := []string{"m1", "m1", "m2", "m3", "m4"}
	if chance(t, "weird", 1, 6) {
		names = append(names, "m.dot")
	}
	tsNames := map[string]bool{}
	for _, n := range []string{"m1", "m2", "m3", "m4", "m.dot", "h1", "h2"} {
		if chance(t, "tsname", 3, 10) {
			tsNames[n] = true
		}
	}
	nspec := rapid.IntRange(2, 8).Draw(t, "nspec")
	var pool []c37Spec
	for i := 0; i < nspec; i++ {
		sp := c37Spec{name: rapid.SampledFrom(names).Draw(t, "name"), pres: rapid.SampledFrom([]int{3, 6, 8, 9, 10}).Draw(t, "pres")}
		if defFormat == "proto" && chance(t, "hist", 1, 4) {
			sp.name = rapid.SampledFrom([]string{"h1", "h2"}).Draw(t, "hname")
			sp.hist = true
		}
		nl := rapid.SampledFrom([]int{0, 1, 1, 2, 2, 3}).Draw(t, "nlabels")
		used := map[string]bool{}
		for j := 0; j < nl; j++ {
			ln := rapid.SampledFrom(c37LabelNames).Draw(t, "lname")
			if used[ln] {
				continue
			}
			used[ln] = true
			lv := rapid.SampledFrom(c37LabelValues).Draw(t, "lvalue")
			if tv := c.Target.Map()[ln]; tv != "" && chance(t, "same_as_target", 1, 4) {
				lv = tv // the target exposes the very value the server would attach
			}
			sp.labels = append(sp.labels, [2]string{ln, lv})
		}
		sp.ts = tsNames[sp.name]
		pool = append(pool, sp)
		// another spelling of the same series
		if len(sp.labels) > 0 && chance(t, "alias", 1, 5) {
			al := sp
			al.labels = append([][2]string(nil), sp.labels...)
			if len(al.labels) > 1 && rapid.Bool().Draw(t, "permute") {
				al.labels[0], al.labels[len(al.labels)-1] = al.labels[len(al.labels)-1], al.labels[0]
			} else {
				al.comma = true
			}
			al.pres = rapid.SampledFrom([]int{3, 6, 9}).Draw(t, "apres")
			pool = append(pool, al)
		}
	}
	np := len(pool)
	if chance(t, "sample_limit", 3, 10) {
		c.SampleLimit = rapid.SampledFrom([]int{1, np/2 + 1, np - 1, np, np + 1, np + 2}).Draw(t, "sample_limit_n")
		if c.SampleLimit < 1 {
			c.SampleLimit = 1
		}
	}
	if chance(t, "label_limit", 2, 10) {
		c.LabelLimit = rapid.SampledFrom([]int{3, 4, 5, 6, 7}).Draw(t, "label_limit_n")
	}
	if chance(t, "name_len", 1, 10) {
		c.NameLenLimit = rapid.SampledFrom([]int{8, 9, 10, 14, 16}).Draw(t, "name_len_n")
	}
	if chance(t, "value_len", 1, 10) {
		c.ValueLenLimit = rapid.SampledFrom([]int{5, 8, 12, 19}).Draw(t, "value_len_n")
	}
	if defFormat == "proto" && chance(t, "bucket_limit", 4, 10) {
		c.BucketLimit = rapid.SampledFrom([]int{1, 2, 3, 4, 6}).Draw(t, "bucket_limit_n")
	}

	maxScrapes := 30
	if ev.Thorough() {
		maxScrapes = 50
	}
	n := rapid.IntRange(10, maxScrapes).Draw(t, "nscrapes")
	valueMode := rapid.IntRange(0, 2).Draw(t, "value_mode")
	for i := 0; i < n; i++ {
		sc := c37Scrape{
			DT:      rapid.SampledFrom([]int64{1, 1000, 15000, 15000, 15000, 60000, 0}).Draw(t, "dt"),
			Kind:    "body",
			Format:  defFormat,
			Garbage: -1,
			NewRefs: chance(t, "new_refs", 1, 10),
		}
		if sc.DT == 0 {
			sc.DT = int64(rapid.IntRange(1, 120000).Draw(t, "dt_any"))
		}
		sc.Kind = rapid.SampledFrom([]string{"body", "body", "body", "body", "body", "body", "body", "body", "body", "body", "body", "body", "body", "body", "body", "body", "body", "body", "body", "body", "body",
			"transport", "transport", "read", "forced"}).Draw(t, "kind")
		if chance(t, "other_format", 1, 10) {
			sc.Format = rapid.SampledFrom([]string{"text", "om", "proto"}).Draw(t, "format_i")
		}
		sc.Types = chance(t, "types", 1, 4)
		sc.Comment = chance(t, "comment", 1, 6)
		for si, sp := range pool {
			if !chance(t, "present", sp.pres, 10) {
				continue
			}
			if sp.hist && sc.Format != "proto" {
				continue
			}
			s := c37Sample{Name: sp.name, Labels: sp.labels, Comma: sp.comma}
			switch valueMode {
			case 0:
				s.V = gen.B(float64(i + si))
			case 1:
				s.V = gen.B(float64(si))
			default:
				s.V = rapid.SampledFrom([]uint64{gen.B(0), gen.B(1), gen.B(2.5), gen.B(-1), gen.NormalNaNBits, 0x7ff0000000000000, 0xfff0000000000000, 0x8000000000000000}).Draw(t, "value")
			}
			if sp.hist {
				schema := rapid.SampledFrom([]int32{-4, -4, -3, 0, 2}).Draw(t, "schema")
				h := gen.Histogram(gen.HistOpts{Schema: &schema, MaxBuckets: 4, AllowGauge: true}).Draw(t, "hist")
				if len(h.PS) == 0 && len(h.NS) == 0 && h.ZT == 0 && h.ZC == 0 {
					h.ZT = gen.B(0.001) // otherwise the exposition is a classic histogram
				}
				s.H = &h
			}
			s.HasTS = sp.ts
			if chance(t, "ts_flip", 1, 40) {
				s.HasTS = !s.HasTS
			}
			if s.HasTS {
				s.TSOff = rapid.SampledFrom([]int64{0, -1, -1000, -1000, -5000, -15000, 500, 3000}).Draw(t, "ts_off")
				if chance(t, "ts_abs", 1, 8) {
					s.TSAbs = true
					s.TSOff = int64(i/3) * 20000
				}
			}
			sc.Samples = append(sc.Samples, s)
			if chance(t, "dup", 1, 12) {
				d := s
				if rapid.Bool().Draw(t, "dup_other_value") {
					d.V = gen.B(gen.F(s.V) + 1)
				}
				sc.Samples = append(sc.Samples, d)
			}
		}
		if chance(t, "reverse", 1, 5) {
			for a, b := 0, len(sc.Samples)-1; a < b; a, b = a+1, b-1 {
				sc.Samples[a], sc.Samples[b] = sc.Samples[b], sc.Samples[a]
			}
		}
		if sc.Kind == "body" {
			switch k := rapid.SampledFrom([]string{"", "", "", "", "", "", "", "", "", "", "", "", "", "", "", "", "", "", "", "", "", "garbage", "garbage", "noeof", "badct"}).Draw(t, "breakage"); {
			case k == "garbage":
				sc.Garbage = rapid.IntRange(0, len(sc.Samples)).Draw(t, "garbage_at")
			case k == "noeof" && sc.Format == "om":
				sc.NoEOF = true
			case k == "badct":
				sc.Format = "text"
				sc.BadCT = rapid.SampledFrom([]string{"blank", "application/json", "text/(plain"}).Draw(t, "bad_ct")
				for j := range sc.Samples {
					sc.Samples[j].H = nil
				}
			}
		}
		c.Scrapes = append(c.Scrapes, sc)
	}
	return c
}

// ---------------------------------------------------------------------------
// Run.

func c37Config(c c37Case) (*config.ScrapeConfig, mcfg, error) {
	rules, err := buildRules(c.Rules)
	if err != nil {
		return nil, mcfg{}, err
	}
	scheme := model.UTF8Validation
	if c.Legacy {
		scheme = model.LegacyValidation
	}
	for _, r := range rules {
		r.NameValidationScheme = scheme
	}
	yes := true
	cfg := &config.ScrapeConfig{
		JobName:                    "j",
		HonorLabels:                c.HonorLabels,
		HonorTimestamps:            c.HonorTimestamps,
		TrackTimestampsStaleness:   c.TrackTS,
		ScrapeInterval:             model.Duration(15 * time.Second),
		ScrapeTimeout:              model.Duration(10 * time.Second),
		SampleLimit:                uint(c.SampleLimit),
		LabelLimit:                 uint(c.LabelLimit),
		LabelNameLengthLimit:       uint(c.NameLenLimit),
		LabelValueLengthLimit:      uint(c.ValueLenLimit),
		NativeHistogramBucketLimit: uint(c.BucketLimit),
		ScrapeNativeHistograms:     &yes,
		MetricRelabelConfigs:       rules,
		MetricNameValidationScheme: scheme,
	}
	if c.Fallback {
		cfg.ScrapeFallbackProtocol = config.PrometheusText0_0_4
	}
	mc := mcfg{honorLabels: c.HonorLabels, honorTS: c.HonorTimestamps, trackTS: c.TrackTS, sampleLimit: c.SampleLimit, labelLimit: c.LabelLimit,
		nameLen: c.NameLenLimit, valueLen: c.ValueLenLimit, bucketLimit: c.BucketLimit, legacy: c.Legacy, fallback: c.Fallback, target: c.Target, rules: rules}
	return cfg, mc, nil
}

func describeScrape(i int, sc c37Scrape, t0, T int64) string {
	var b strings.Builder
	fmt.Fprintf(&b, "scrape %d at %d: kind=%s format=%s", i, T, sc.Kind, sc.Format)
	if sc.BadCT != "" {
		fmt.Fprintf(&b, " content-type=%q", sc.BadCT)
	}
	if sc.NewRefs {
		b.WriteString(" (storage forgot all references before it)")
	}
	if sc.Format != "proto" {
		fmt.Fprintf(&b, "\n      body %q", string(renderText(sc, t0, T)))
		return b.String()
	}
	gAt := protoGarbageAt(sc)
	b.WriteString("\n      body:")
	for k, s := range sc.Samples {
		if gAt == k {
			b.WriteString(" <truncated message>")
		}
		fmt.Fprintf(&b, " [%s", metricString(s, "text"))
		if s.H != nil {
			fmt.Fprintf(&b, " hist(schema %d, %d+%d buckets)", s.H.Schema, len(s.H.PB), len(s.H.NB))
		} else {
			fmt.Fprintf(&b, " %s", fmtFloat(s.V))
		}
		if s.HasTS {
			fmt.Fprintf(&b, " @%d", explicitTS(s, sc.Format, t0, T))
		}
		b.WriteString("]")
	}
	if gAt == len(sc.Samples) {
		b.WriteString(" <truncated message>")
	}
	return b.String()
}

func describeConfig(c c37Case) string {
	return fmt.Sprintf("appender v2=%v honor_labels=%v honor_timestamps=%v track_timestamps_staleness=%v sample_limit=%d label_limit=%d label_name_length_limit=%d label_value_length_limit=%d native_histogram_bucket_limit=%d legacy_names=%v fallback=%v target=%v rules=%+v",
		c.V2, c.HonorLabels, c.HonorTimestamps, c.TrackTS, c.SampleLimit, c.LabelLimit, c.NameLenLimit, c.ValueLenLimit, c.BucketLimit, c.Legacy, c.Fallback, c.Target, c.Rules)
}

var c37Trace = os.Getenv("C37_TRACE") != ""

const (
	c37KnownPartial   = "failed-scrape-keeps-partial-staleness"
	c37KnownRespelled = "respelled-series-after-ref-change-marked-stale"
)

func runC37(c c37Case, r *ev.Rec) error {
	cfg, mc, err := c37Config(c)
	if err != nil || len(c.Scrapes) == 0 {
		r.Discard()
		return nil
	}
	st := newRecStore()
	var app storage.Appendable
	var app2 storage.AppendableV2
	if c.V2 {
		app2 = st
		r.Class("appender:v2")
	} else {
		app = st
		r.Class("appender:v1")
	}
	target := map[string]string{model.AddressLabel: "h:1", model.SchemeLabel: "http", model.MetricsPathLabel: "/metrics",
		model.ScrapeIntervalLabel: "15s", model.ScrapeTimeoutLabel: "10s"}
	for _, l := range c.Target {
		target[l[0]] = l[1]
	}
	loop, err := scrape.NewVerifLoop(cfg, labels.FromMap(target), app, app2, &scrape.Options{})
	if err != nil {
		return ev.Failf("NewVerifLoop: %v", err)
	}
	stopped := false
	defer func() {
		if !stopped {
			loop.DisableEndOfRunStalenessMarkers()
			loop.Stop(time.Millisecond)
		}
	}()

	strict, quirk := newRefModel(mc, false), newRefModel(mc, true)
	var strictErr, quirkErr error
	var history []string
	fail := func(i int, what string, e error, tr takeResult) error {
		var b strings.Builder
		fmt.Fprintf(&b, "%s\n  %v\n config: %s\n", what, e, describeConfig(c))
		from := len(history) - 4
		if from < 0 {
			from = 0
		}
		for _, h := range history[from:] {
			fmt.Fprintf(&b, "    %s\n", h)
		}
		b.WriteString(" what the loop did with the storage in this step:\n")
		for _, l := range tr.log {
			fmt.Fprintf(&b, "    %s\n", l)
		}
		return errors.New(b.String())
	}

	T := c.T0
	failures := 0
	presence := map[string][]int{} // series -> scrapes with a stored sample
	for i, sc := range c.Scrapes {
		if sc.DT <= 0 {
			r.Discard()
			return nil
		}
		T += sc.DT
		if sc.NewRefs {
			st.invalidateRefs()
			r.Class("storage-forgot-refs")
		}
		body, ct := render(sc, c.T0, T)
		out := scrape.VerifOutcome{Body: body, ContentType: ct}
		bodyLen := len(body)
		switch sc.Kind {
		case "transport":
			out = scrape.VerifOutcome{ScrapeErr: errors.New("connection refused")}
			bodyLen = 0
		case "read":
			out.ReadErr = errors.New("unexpected EOF")
			bodyLen = 0
		case "forced":
			loop.SetForcedError(errors.New("target_limit exceeded"))
			bodyLen = 0
		case "body":
		default:
			r.Discard()
			return nil
		}
		loop.Scrape(time.UnixMilli(T), out)
		if sc.Kind == "forced" {
			loop.SetForcedError(nil)
		}
		tr := st.take()
		history = append(history, describeScrape(i, sc, c.T0, T))
		if len(tr.problems) > 0 {
			return ev.Failf("%v", fail(i, "the scrape loop broke the appender contract", errors.New(strings.Join(tr.problems, "; ")), tr))
		}
		if tr.stillOpen || tr.commits+tr.rollbacks != tr.sessions {
			return ev.Failf("%v", fail(i, "an appender was neither committed nor rolled back", fmt.Errorf("%d appenders, %d commits, %d rollbacks", tr.sessions, tr.commits, tr.rollbacks), tr))
		}
		sortSamples(tr.samples)
		obs := newObs(tr)
		if c37Trace {
			fmt.Printf("%s\n", history[len(history)-1])
			for _, l := range tr.log {
				fmt.Printf("        %s\n", l)
			}
		}

		if strictErr == nil {
			info, e := strict.step(&c, sc, T, bodyLen, obs)
			history[len(history)-1] += fmt.Sprintf("\n      model: %s %s", info.outcome, info.detail)
			r.Class("scrape:" + info.outcome)
			r.Class("format:" + sc.Format)
			r.Count("stale-markers-demanded", info.must)
			r.Count("stale-markers-tolerated", info.may)
			r.Count("histogram-samples", info.hists)
			r.Count("histograms-reduced", info.reduced)
			if info.ambLimit {
				r.Class("sample-limit-ambiguous")
			}
			if info.outcome != "ok" {
				failures++
				if info.partial > 0 {
					r.Class("failed-after-partial-append")
				}
			}
			for _, k := range info.keys {
				if p := presence[k]; len(p) == 0 || p[len(p)-1] != i {
					presence[k] = append(presence[k], i)
				}
			}
			if e != nil {
				strictErr = fail(i, fmt.Sprintf("scrape %d: the committed samples differ from the model", i), e, tr)
			}
		}
		if quirkErr == nil {
			if _, e := quirk.step(&c, sc, T, bodyLen, obs); e != nil {
				quirkErr = fail(i, fmt.Sprintf("scrape %d: the committed samples differ from the model", i), e, tr)
				if c37Trace {
					fmt.Printf("   VARIANT MODEL FAILS: scrape %d: %v\n", i, e)
				}
			}
		}
		if strictErr != nil && quirkErr != nil {
			break
		}
	}

	if strictErr == nil || quirkErr == nil {
		stopped = true
		loop.Stop(time.Millisecond)
		tr := st.take()
		history = append(history, "target removed")
		if len(tr.problems) > 0 {
			return ev.Failf("%v", fail(len(c.Scrapes), "the scrape loop broke the appender contract at target removal", errors.New(strings.Join(tr.problems, "; ")), tr))
		}
		if tr.stillOpen || tr.commits+tr.rollbacks != tr.sessions {
			return ev.Failf("%v", fail(len(c.Scrapes), "target removal: an appender was neither committed nor rolled back", fmt.Errorf("%d appenders, %d commits, %d rollbacks", tr.sessions, tr.commits, tr.rollbacks), tr))
		}
		sortSamples(tr.samples)
		obs := newObs(tr)
		if strictErr == nil {
			if e := strict.endOfRun(obs); e != nil {
				strictErr = fail(len(c.Scrapes), "target removal: the committed samples differ from the model", e, tr)
			}
		}
		if quirkErr == nil {
			if e := quirk.endOfRun(obs); e != nil {
				quirkErr = fail(len(c.Scrapes), "target removal: the committed samples differ from the model", e, tr)
			}
		}
	}

	// non-trivial: a series disappears and reappears, and at least one scrape failed
	reappears := false
	for _, p := range presence {
		for j := 1; j < len(p); j++ {
			if p[j] > p[j-1]+1 {
				reappears = true
			}
		}
	}
	if reappears {
		r.Class("series-reappears")
	}
	if reappears && failures > 0 {
		r.NonTrivial()
	}

	switch {
	case strictErr == nil && strict.sigSeen != "":
		return ev.FailSig(strict.sigSeen, "a series that is still exposed got a staleness marker (%s): %s; the storage had invalidated its references and the series is exposed under another spelling than in the previous scrape\n config: %s\n    %s", strict.sigSeen, strict.sigDetail, describeConfig(c), strings.Join(history, "\n    "))
	case strictErr == nil:
		return nil
	case quirkErr == nil && quirk.partialSeen:
		// Known deviation, matched by its exact mechanism: the observation equals the model
		// in which a scrape that fails after it appended part of its body (malformed input
		// further down, a limit hit) keeps those series in the staleness tracking although
		// the appended samples were rolled back.
		return ev.FailSig(c37KnownPartial, "[the observation equals the model variant %q]\n%v", c37KnownPartial, strictErr)
	}
	if quirk.partialSeen && quirkErr != nil {
		// The history contains a failed scrape with a partially appended body: from there on the
		// strict model is off by the known deviation. The history was judged by the variant model
		// that reproduces that one deviation - and it differs from that one too.
		first := strings.SplitN(strictErr.Error(), "\n config:", 2)[0]
		return ev.Failf("[judged by the model variant of the known deviation %q, because an earlier scrape failed after a part of its body was appended]\n%v\n (the strict model differs earlier, in the way of that known deviation: %s)", c37KnownPartial, quirkErr, first)
	}
	return ev.Failf("%v", strictErr)
}

func TestC37(t *testing.T) {
	ev.Check(t, "C37",
		"one scrape configuration (appender v1/v2, honor_labels, honor_timestamps, track_timestamps_staleness, sample/label/bucket limits, metric relabel rules, name validation, fallback protocol) and a history of 10-30 (thorough: 10-50) scrapes at increasing explicit scrape times drawn from a pool of 2-8 series (+ re-spelled aliases, repeated lines, explicit timestamps, native histograms) in text/OpenMetrics/protobuf, with transport/read/forced failures, malformed bodies, bad content types and storage reference invalidation, ending with target removal; every committed batch is compared with the reference model. Non-trivial: some series has a stored sample, then none, then one again, and at least one scrape failed (transport, parse, invalid, over a limit); distinct by hash of the case.",
		genC37, runC37)
}

var _ = histogram.UnknownCounterReset
var _ = sort.Strings
