package scrapechk

import (
	"bytes"
	"encoding/binary"
	"math"
	"regexp"
	"sort"
	"strconv"
	"strings"

	"github.com/prometheus/prometheus/model/histogram"
	dto "github.com/prometheus/prometheus/prompb/io/prometheus/client"

	"verifharness/internal/gen"
)

// ---------------------------------------------------------------------------
// The case: configuration + a history of scrape outcomes (plain JSON).

type c37Sample struct {
	Name   string      // metric name as exposed
	Labels [][2]string // label pairs in exposition order (order is part of the metric string)
	Comma  bool        // text formats: trailing comma inside the braces (another spelling of the same series)
	V      uint64      // float64 bits: finite, +-Inf or the canonical NaN
	HasTS  bool        // the sample carries an explicit timestamp
	TSOff  int64       // explicit timestamp = (scrape time | history start if TSAbs) + TSOff milliseconds
	TSAbs  bool
	H      *gen.Hist `json:",omitempty"` // native histogram value (protobuf bodies only)
}

type c37Scrape struct {
	DT      int64  // milliseconds after the previous scrape (> 0)
	Kind    string // body | transport | read | forced
	Format  string // text | om | proto
	BadCT   string `json:",omitempty"` // sent instead of the proper Content-Type ("blank": empty header)
	Types   bool   // text: emit "# TYPE" lines
	Comment bool   // text/om: leading comment line (a body without samples is then not empty)
	Samples []c37Sample
	Garbage int  // -1: none; k: malformed input in front of sample k; len(Samples): at the end
	NoEOF   bool // om: "# EOF" is missing
	NewRefs bool // the storage forgets every series reference before this scrape
}

type c37Rule struct {
	Action  string
	Source  []string `json:",omitempty"`
	Regex   string   `json:",omitempty"`
	Target  string   `json:",omitempty"`
	Repl    string
	ReplSet bool
}

type c37Case struct {
	V2              bool // AppenderV2 path
	HonorLabels     bool
	HonorTimestamps bool
	TrackTS         bool // track_timestamps_staleness
	SampleLimit     int
	LabelLimit      int
	NameLenLimit    int
	ValueLenLimit   int
	BucketLimit     int
	Legacy          bool      // metric_name_validation_scheme: legacy
	Fallback        bool      // fallback_scrape_protocol: PrometheusText0.0.4
	Target          gen.Lset  // target labels (job, instance, ...)
	Rules           []c37Rule `json:",omitempty"`
	T0              int64
	Scrapes         []c37Scrape
}

// explicitTS is the timestamp a sample carries in the body of a scrape at time ti.
// OpenMetrics carries seconds: only whole seconds are used so that the parser's
// float conversion is exact. Protobuf cannot express timestamp 0.
func explicitTS(s c37Sample, format string, t0, ti int64) int64 {
	base := ti
	if s.TSAbs {
		base = t0
	}
	ts := base + s.TSOff
	if format == "om" {
		ts = ts - ((ts%1000)+1000)%1000
	}
	if ts == 0 {
		ts = 1
	}
	return ts
}

var legacyMetricName = regexp.MustCompile(`^[a-zA-Z_:][a-zA-Z0-9_:]*$`)
var legacyLabelName = regexp.MustCompile(`^[a-zA-Z_][a-zA-Z0-9_]*$`)

func escapeValue(v string) string {
	v = strings.ReplaceAll(v, `\`, `\\`)
	v = strings.ReplaceAll(v, "\"", `\"`)
	return strings.ReplaceAll(v, "\n", `\n`)
}

// seriesText is the series part of an exposition line: what the scrape cache is keyed by.
func seriesText(s c37Sample) string {
	var b strings.Builder
	quoted := !legacyMetricName.MatchString(s.Name)
	if !quoted {
		b.WriteString(s.Name)
		if len(s.Labels) == 0 {
			return b.String()
		}
	}
	b.WriteByte('{')
	first := true
	if quoted {
		b.WriteString(strconv.Quote(s.Name))
		first = false
	}
	for _, l := range s.Labels {
		if !first {
			b.WriteByte(',')
		}
		first = false
		if legacyLabelName.MatchString(l[0]) {
			b.WriteString(l[0])
		} else {
			b.WriteString(strconv.Quote(l[0]))
		}
		b.WriteString(`="`)
		b.WriteString(escapeValue(l[1]))
		b.WriteByte('"')
	}
	if s.Comma && len(s.Labels) > 0 {
		b.WriteByte(',')
	}
	b.WriteByte('}')
	return b.String()
}

// metricString identifies "the same metric string" for the scrape cache in every format.
// The protobuf parser derives it from the sorted label set (so label order does not
// matter there, and a metric without labels has the same string as in the text formats).
func metricString(s c37Sample, format string) string {
	if format == "proto" {
		ls := append([][2]string{{"__name__", s.Name}}, s.Labels...)
		sort.SliceStable(ls, func(i, j int) bool { return ls[i][0] < ls[j][0] })
		var b strings.Builder
		for _, l := range ls {
			if l[0] == "__name__" {
				b.WriteString(l[1])
				continue
			}
			b.WriteString("\xff" + l[0] + "\xff" + l[1])
		}
		return b.String()
	}
	return seriesText(s)
}

// valueBits is the float the body carries: proto3 cannot express -0 (it is the default
// value of the field and left out).
func valueBits(s c37Sample, format string) uint64 {
	if format == "proto" && s.V == 0x8000000000000000 {
		return 0
	}
	return s.V
}

func fmtFloat(bits uint64) string {
	f := gen.F(bits)
	switch {
	case math.IsNaN(f):
		return "NaN"
	case math.IsInf(f, 1):
		return "+Inf"
	case math.IsInf(f, -1):
		return "-Inf"
	}
	return strconv.FormatFloat(f, 'g', -1, 64)
}

const garbageLine = "m_broken{a=\"1\" 5\n"

func renderText(sc c37Scrape, t0, ti int64) []byte {
	var b bytes.Buffer
	om := sc.Format == "om"
	if sc.Comment && !om { // OpenMetrics has no free-form comments
		b.WriteString("# just a comment\n")
	}
	typed := map[string]bool{}
	for k, s := range sc.Samples {
		if sc.Garbage == k {
			b.WriteString(garbageLine)
		}
		if sc.Types && !om && !typed[s.Name] && legacyMetricName.MatchString(s.Name) {
			typed[s.Name] = true
			b.WriteString("# TYPE " + s.Name + " gauge\n")
		}
		b.WriteString(seriesText(s))
		b.WriteByte(' ')
		b.WriteString(fmtFloat(s.V))
		if s.HasTS {
			ts := explicitTS(s, sc.Format, t0, ti)
			b.WriteByte(' ')
			if om {
				b.WriteString(strconv.FormatInt(ts/1000, 10))
			} else {
				b.WriteString(strconv.FormatInt(ts, 10))
			}
		}
		b.WriteByte('\n')
	}
	if sc.Garbage == len(sc.Samples) {
		b.WriteString(garbageLine)
	}
	if om && !sc.NoEOF {
		b.WriteString("# EOF\n")
	}
	return b.Bytes()
}

func protoGroupKey(s c37Sample) string {
	switch {
	case s.H == nil:
		return s.Name + "\x00f"
	case s.H.Hint == uint8(histogram.GaugeType):
		return s.Name + "\x00g"
	}
	return s.Name + "\x00h"
}

// protoGroups splits the samples into runs that share one MetricFamily message.
func protoGroups(samples []c37Sample) [][2]int {
	var out [][2]int
	for i := 0; i < len(samples); {
		j := i + 1
		for j < len(samples) && protoGroupKey(samples[j]) == protoGroupKey(samples[i]) {
			j++
		}
		out = append(out, [2]int{i, j})
		i = j
	}
	return out
}

// protoGarbageAt snaps a garbage position to the start of the family message that
// contains it: protobuf bodies can only break between messages.
func protoGarbageAt(sc c37Scrape) int {
	if sc.Garbage < 0 || sc.Garbage >= len(sc.Samples) {
		return sc.Garbage
	}
	for _, g := range protoGroups(sc.Samples) {
		if sc.Garbage >= g[0] && sc.Garbage < g[1] {
			return g[0]
		}
	}
	return sc.Garbage
}

func protoHist(h gen.Hist) *dto.Histogram {
	ih := h.Int()
	out := &dto.Histogram{
		SampleCount: ih.Count, SampleSum: ih.Sum, Schema: ih.Schema,
		ZeroThreshold: ih.ZeroThreshold, ZeroCount: ih.ZeroCount,
		PositiveDelta: ih.PositiveBuckets, NegativeDelta: ih.NegativeBuckets,
	}
	for _, s := range ih.PositiveSpans {
		out.PositiveSpan = append(out.PositiveSpan, dto.BucketSpan{Offset: s.Offset, Length: s.Length})
	}
	for _, s := range ih.NegativeSpans {
		out.NegativeSpan = append(out.NegativeSpan, dto.BucketSpan{Offset: s.Offset, Length: s.Length})
	}
	return out
}

func renderProto(sc c37Scrape, t0, ti int64) []byte {
	var b bytes.Buffer
	// an over-long varint where a message length is expected: invalid whatever follows
	garbage := func() { b.Write(bytes.Repeat([]byte{0xff}, 11)) }
	gAt := protoGarbageAt(sc)
	for _, g := range protoGroups(sc.Samples) {
		if gAt == g[0] {
			garbage()
		}
		first := sc.Samples[g[0]]
		mf := dto.MetricFamily{Name: first.Name, Type: dto.MetricType_GAUGE}
		if first.H != nil {
			mf.Type = dto.MetricType_HISTOGRAM
			if first.H.Hint == uint8(histogram.GaugeType) {
				mf.Type = dto.MetricType_GAUGE_HISTOGRAM
			}
		}
		for _, s := range sc.Samples[g[0]:g[1]] {
			m := dto.Metric{}
			for _, l := range s.Labels {
				m.Label = append(m.Label, dto.LabelPair{Name: l[0], Value: l[1]})
			}
			if s.H != nil {
				m.Histogram = protoHist(*s.H)
			} else {
				m.Gauge = &dto.Gauge{Value: gen.F(s.V)}
			}
			if s.HasTS {
				m.TimestampMs = explicitTS(s, sc.Format, t0, ti)
			}
			mf.Metric = append(mf.Metric, m)
		}
		raw, err := mf.Marshal()
		if err != nil {
			panic(err)
		}
		var lenBuf [binary.MaxVarintLen32]byte
		n := binary.PutUvarint(lenBuf[:], uint64(len(raw)))
		b.Write(lenBuf[:n])
		b.Write(raw)
	}
	if gAt == len(sc.Samples) {
		garbage()
	}
	return b.Bytes()
}

// render returns the body and the Content-Type the target sends.
func render(sc c37Scrape, t0, ti int64) ([]byte, string) {
	var body []byte
	var ct string
	switch sc.Format {
	case "proto":
		body = renderProto(sc, t0, ti)
		ct = "application/vnd.google.protobuf; proto=io.prometheus.client.MetricFamily; encoding=delimited"
	case "om":
		body = renderText(sc, t0, ti)
		ct = "application/openmetrics-text; version=1.0.0; charset=utf-8"
	default:
		body = renderText(sc, t0, ti)
		ct = "text/plain; version=0.0.4; charset=utf-8"
	}
	switch sc.BadCT {
	case "":
	case "blank":
		ct = ""
	default:
		ct = sc.BadCT
	}
	return body, ct
}
