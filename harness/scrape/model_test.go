package scrapechk

import (
	"fmt"
	"sort"
	"strings"
	"unicode/utf8"

	"github.com/prometheus/common/model"

	"github.com/prometheus/prometheus/model/histogram"
	"github.com/prometheus/prometheus/model/labels"
	"github.com/prometheus/prometheus/model/relabel"

	"verifharness/internal/gen"
)

// ---------------------------------------------------------------------------
// Reference model of the property text.
//
// Per scrape it derives, from the abstract samples of the body (never from the parser),
// what the storage must have received in committed batches:
//   - the relabelled samples at the scrape time or their honoured explicit timestamp,
//   - staleness markers at the scrape time for series that were exposed (and subject to
//     staleness tracking) in the previous scrape and are not exposed now,
//   - the report series.
// A failed / unparsable / over-limit scrape stores no sample of its body, marks every
// tracked series stale and reports up=0. Whether the storage accepts an append (newer /
// identical / duplicate / out of order) is decided by the same ruleBook the recording
// storage uses: that is the environment, not the scrape loop.
//
// Where the documentation leaves the outcome open the model marks an expectation as
// "may": the observation is accepted either way (see DESIGN deviations in C37.md):
//   - a series that is still exposed but not in a way that is tracked (explicit timestamp
//     without track_timestamps_staleness after it was exposed without one; or its sample
//     was rejected by the storage) may get a marker,
//   - scrape_series_added is documented as approximate: a range is accepted,
//   - the report counters of a scrape that failed in the middle of the body are bounded.

type mcfg struct {
	honorLabels, honorTS, trackTS                           bool
	sampleLimit, labelLimit, nameLen, valueLen, bucketLimit int
	legacy, fallback                                        bool
	target                                                  gen.Lset
	rules                                                   []*relabel.Config
}

type mutRes struct {
	dropped bool
	invalid string // non-empty: the scrape must fail because of this sample
	l       labels.Labels
	key     string
}

func validName(legacy, metric bool, n string) bool {
	if !legacy {
		return n != "" && utf8.ValidString(n)
	}
	if metric {
		return legacyMetricName.MatchString(n)
	}
	return legacyLabelName.MatchString(n)
}

// mutate: target labels per honor_labels (from the docs), metric relabeling (the
// relabel package is the subject of C38 and trusted here), then the post-relabel
// validity and label limit rules of the scrape_config documentation.
func (c *mcfg) mutate(s c37Sample) mutRes {
	m := map[string]string{labels.MetricName: s.Name}
	for _, l := range s.Labels {
		if l[1] != "" {
			m[l[0]] = l[1]
		}
	}
	for _, tl := range c.target {
		name, val := tl[0], tl[1]
		if strings.HasPrefix(name, "__") {
			continue
		}
		scraped, has := m[name]
		switch {
		case c.honorLabels:
			if !has {
				m[name] = val
			}
		default:
			if has {
				m["exported_"+name] = scraped
			}
			m[name] = val
		}
	}
	lb := labels.NewBuilder(labels.FromMap(m))
	if !relabel.ProcessBuilder(lb, c.rules...) {
		return mutRes{dropped: true}
	}
	out := lb.Labels()
	if out.IsEmpty() {
		return mutRes{dropped: true}
	}
	res := mutRes{l: out, key: gen.FromLabels(out).Key()}
	name := out.Get(labels.MetricName)
	if name == "" {
		res.invalid = "no metric name after relabeling"
		return res
	}
	n := 0
	out.Range(func(l labels.Label) {
		n++
		if res.invalid != "" {
			return
		}
		switch {
		case l.Name == labels.MetricName && !validName(c.legacy, true, l.Value):
			res.invalid = fmt.Sprintf("invalid metric name %q", l.Value)
		case l.Name != labels.MetricName && !validName(c.legacy, false, l.Name):
			res.invalid = fmt.Sprintf("invalid label name %q", l.Name)
		case !utf8.ValidString(l.Value):
			res.invalid = "invalid label value"
		}
	})
	if res.invalid != "" {
		return res
	}
	if c.labelLimit > 0 && n > c.labelLimit {
		res.invalid = fmt.Sprintf("label_limit: %d labels > %d", n, c.labelLimit)
		return res
	}
	out.Range(func(l labels.Label) {
		if res.invalid != "" {
			return
		}
		if c.nameLen > 0 && len(l.Name) > c.nameLen {
			res.invalid = fmt.Sprintf("label_name_length_limit: %q > %d", l.Name, c.nameLen)
		}
		if c.valueLen > 0 && len(l.Value) > c.valueLen {
			res.invalid = fmt.Sprintf("label_value_length_limit: %q > %d", l.Value, c.valueLen)
		}
	})
	return res
}

// ---- native histograms under a bucket limit -------------------------------------------

func bucketMapOf(h *histogram.FloatHistogram) (pos, neg map[int32]float64) {
	return gen.BucketMap(h.PositiveSpans, h.PositiveBuckets), gen.BucketMap(h.NegativeSpans, h.NegativeBuckets)
}

func fromBucketMap(m map[int32]float64) ([]histogram.Span, []float64) {
	idx := make([]int32, 0, len(m))
	for i := range m {
		idx = append(idx, i)
	}
	sort.Slice(idx, func(a, b int) bool { return idx[a] < idx[b] })
	var spans []histogram.Span
	var buckets []float64
	for k, i := range idx {
		switch {
		case k == 0:
			spans = append(spans, histogram.Span{Offset: i, Length: 1})
		case i == idx[k-1]+1:
			spans[len(spans)-1].Length++
		default:
			spans = append(spans, histogram.Span{Offset: i - idx[k-1] - 1, Length: 1})
		}
		buckets = append(buckets, m[i])
	}
	return spans, buckets
}

// limitBuckets applies native_histogram_bucket_limit as documented: "The resolution of
// a histogram with more buckets will be reduced until the number of buckets is within
// the limit. If the limit cannot be reached, the scrape will fail." Halving the
// resolution merges bucket i into bucket ceil(i/2). Empty buckets do not count (the
// exposition parser drops them).
func limitBuckets(h *histogram.FloatHistogram, limit int) (*histogram.FloatHistogram, bool) {
	pos, neg := bucketMapOf(h)
	schema := h.Schema
	for len(pos)+len(neg) > limit {
		if schema <= -4 {
			return nil, false
		}
		schema--
		half := func(in map[int32]float64) map[int32]float64 {
			out := map[int32]float64{}
			for i, c := range in {
				out[(i+1)>>1] += c
			}
			return out
		}
		pos, neg = half(pos), half(neg)
	}
	out := &histogram.FloatHistogram{Schema: schema, ZeroThreshold: h.ZeroThreshold, ZeroCount: h.ZeroCount, Count: h.Count, Sum: h.Sum, CounterResetHint: h.CounterResetHint}
	out.PositiveSpans, out.PositiveBuckets = fromBucketMap(pos)
	out.NegativeSpans, out.NegativeBuckets = fromBucketMap(neg)
	return out, true
}

// ---- expectations ------------------------------------------------------------------------

type expSample struct {
	key      string
	l        labels.Labels
	t        int64
	v        sval
	what     string            // body | stale | report
	may      bool              // accepted present or absent
	overOnly bool              // may only because the loop may have been over the sample limit: must when the scrape succeeded
	sig      string            // may only: observing it is a known deviation with this signature
	check    func(sval) string // optional: replaces equality with v; returns "" when fine
}

type trk struct {
	l    labels.Labels
	sure bool
	str  string // the metric string the series was last tracked under
}

type obsScrape struct {
	samples []recSample
	byKT    map[string]recSample
	take    takeResult
}

func kt(key string, t int64) string { return fmt.Sprintf("%s\x00%d", key, t) }

func newObs(tr takeResult) obsScrape {
	o := obsScrape{samples: tr.samples, byKT: map[string]recSample{}, take: tr}
	for _, s := range tr.samples {
		o.byKT[kt(s.Key, s.T)] = s
	}
	return o
}

type refModel struct {
	cfg   mcfg
	quirk bool // reproduce the one known deviation (see runC37): a scrape that fails in the middle keeps tracking what it had appended
	book  *ruleBook
	trk   map[string]trk
	// scrape_series_added bounds: metric strings surely cached / possibly cached by the loop.
	cachedSure  map[string]bool
	cachedMaybe map[string]bool
	reportL     map[string]labels.Labels
	reportKey   map[string]string
	mut         map[string]mutRes
	sigSeen     string // a tolerated-but-known deviation was observed
	sigDetail   string
	partialSeen bool // a scrape failed after some of its samples had been appended and tracked
	lastT       int64
}

var reportNames = []string{"up", "scrape_duration_seconds", "scrape_samples_scraped", "scrape_samples_post_metric_relabeling", "scrape_series_added"}

func newRefModel(cfg mcfg, quirk bool) *refModel {
	m := &refModel{cfg: cfg, quirk: quirk, book: newRuleBook(), trk: map[string]trk{}, cachedSure: map[string]bool{}, cachedMaybe: map[string]bool{},
		reportL: map[string]labels.Labels{}, reportKey: map[string]string{}, mut: map[string]mutRes{}}
	for _, n := range reportNames {
		// "automatically generated labels and time series": the report series carry the target's labels.
		lm := map[string]string{labels.MetricName: n}
		for _, tl := range cfg.target {
			if !strings.HasPrefix(tl[0], "__") {
				lm[tl[0]] = tl[1]
			}
		}
		l := labels.FromMap(lm)
		m.reportL[n] = l
		m.reportKey[n] = gen.FromLabels(l).Key()
	}
	return m
}

type exposure struct {
	str       string
	key       string
	l         labels.Labels
	eligible  bool // subject to staleness tracking: no honoured explicit timestamp, or tracking on
	accepted  bool
	uncertain bool // the loop may have refused it itself as a repeated metric string
}

type stepInfo struct {
	outcome  string // ok | transport | content-type | parse | invalid | sample_limit | bucket_limit
	detail   string
	partial  int // tracked series appended before the failure
	ambLimit bool
	keys     []string // series with a stored body sample (successful scrapes)
	must     int      // staleness markers demanded
	may      int      // staleness markers tolerated
	hists    int
	reduced  int
}

func (m *refModel) mutateCached(s c37Sample, format string) mutRes {
	k := metricString(s, format)
	if r, ok := m.mut[k]; ok {
		return r
	}
	r := m.cfg.mutate(s)
	m.mut[k] = r
	return r
}

// step checks the committed samples of one scrape against the model and advances it.
func (m *refModel) step(c *c37Case, sc c37Scrape, T int64, bodyLen int, obs obsScrape) (stepInfo, error) {
	info := stepInfo{outcome: "ok"}
	var exp []expSample
	m.lastT = T
	m.book.rollback()

	failed := ""
	var exposures []exposure
	var bodyExp []expSample
	total, added := 0, 0
	stringsStored := map[string]bool{} // metric strings with at least one accepted sample
	stringsSeen := map[string]bool{}   // metric strings that were looked at (not dropped)
	stringsMaybeStored := map[string]bool{}

	switch {
	case sc.Kind != "body":
		failed, info.outcome = "transport", "transport"
	case sc.BadCT != "" && !m.cfg.fallback && bodyLen > 0:
		failed, info.outcome = "content-type", "content-type"
	}
	if failed == "" && bodyLen > 0 {
		format := sc.Format
		garbageAt := sc.Garbage
		if format == "proto" {
			garbageAt = protoGarbageAt(sc)
		}
		seenInBody := map[string]bool{}
		accInBody := map[string]bool{}
		forked := map[string]bool{}
		reachLimit := 0   // appends that reach the sample limit the way the loop counts them
		maybeCounted := 0 // repeated metric strings the loop may or may not have counted
		limitHit, bucketHit, bucketMaybe := false, false, false
		for k, s := range sc.Samples {
			if garbageAt == k {
				failed, info.outcome, info.detail = "parse", "parse", fmt.Sprintf("malformed input in front of sample %d", k)
				break
			}
			total++
			hasTS := s.HasTS && m.cfg.honorTS
			t := T
			if hasTS {
				t = explicitTS(s, format, c.T0, T)
			}
			mr := m.mutateCached(s, format)
			if mr.dropped {
				continue
			}
			if mr.invalid != "" {
				failed, info.outcome, info.detail = "invalid", "invalid", fmt.Sprintf("sample %d: %s", k, mr.invalid)
				break
			}
			str := metricString(s, format)
			stringsSeen[str] = true
			added++
			uncertain, overOnly := false, false
			if seenInBody[str] && !hasTS {
				// The same metric string again without timestamp: same series, same time.
				if accInBody[str] {
					// The first one is stored; whatever the value of this one, the storage content
					// cannot change (identical: no-op, different: duplicate for timestamp).
					continue
				}
				// The earlier one was refused (limit, storage). Whether the loop hands this one
				// to the storage depends on what it remembers of the string from earlier
				// scrapes: the outcome for the staleness tracking is open.
				uncertain = true
			}
			seenInBody[str] = true
			v := sval{bits: valueBits(s, format)}
			if s.H != nil {
				fh := s.H.FloatH()
				fh.CounterResetHint = histogram.UnknownCounterReset
				v = sval{fh: fh}
				info.hists++
				if m.cfg.bucketLimit > 0 {
					red, ok := limitBuckets(fh, m.cfg.bucketLimit)
					if !ok {
						if uncertain {
							bucketMaybe = true // only if the loop handed this repeated string to the storage at all
						} else {
							bucketHit = true
						}
						continue
					}
					if red.Schema != fh.Schema {
						info.reduced++
					}
					v = sval{fh: red}
				}
			}
			switch {
			case uncertain:
				if limitHit {
					continue
				}
				maybeCounted++
			case m.cfg.sampleLimit > 0:
				reachLimit++
				if reachLimit > m.cfg.sampleLimit {
					limitHit = true
					continue
				}
				if reachLimit+maybeCounted > m.cfg.sampleLimit {
					uncertain, overOnly = true, true // the loop may already be over the limit
				}
			}
			var acc int
			switch {
			case forked[mr.key]:
				// an earlier open question about this series in this body: everything after it is open too
				uncertain, overOnly = true, false
				acc = m.book.peek(mr.key, t, v)
			case uncertain && !overOnly:
				acc = m.book.peek(mr.key, t, v) // recorded only if it is observed
				if acc == accNew {
					forked[mr.key] = true
				}
			default:
				acc = m.book.attempt(mr.key, t, v)
			}
			ok := acc == accNew || acc == accNoop
			exposures = append(exposures, exposure{str: str, key: mr.key, l: mr.l, eligible: !hasTS || m.cfg.trackTS, accepted: ok, uncertain: uncertain})
			if ok {
				accInBody[str] = true
				if uncertain {
					stringsMaybeStored[str] = true
				} else {
					stringsStored[str] = true
				}
			}
			if acc == accNew {
				bodyExp = append(bodyExp, expSample{key: mr.key, l: mr.l, t: t, v: v, what: "body", may: uncertain, overOnly: overOnly})
			}
		}
		if failed == "" && garbageAt == len(sc.Samples) {
			failed, info.outcome, info.detail = "parse", "parse", "malformed input at the end"
		}
		if failed == "" && format == "om" && sc.NoEOF {
			failed, info.outcome, info.detail = "parse", "parse", "no # EOF"
		}
		if failed == "" && m.cfg.sampleLimit > 0 {
			// docs: "If more than this number of samples are present after metric relabeling the
			// entire scrape will be treated as failed." The loop does not count a repeated metric
			// string (nor a histogram rejected by the bucket limit) towards the limit; when the
			// two readings differ the observed verdict is followed.
			docOver := added > m.cfg.sampleLimit
			if docOver != limitHit {
				info.ambLimit = true
				up, ok := obs.byKT[kt(m.reportKey["up"], T)]
				limitHit = ok && up.V.bits == gen.B(0)
			}
			if limitHit {
				failed, info.outcome = "sample_limit", "sample_limit"
			}
		}
		if failed == "" && !bucketHit && bucketMaybe {
			info.ambLimit = true
			up, ok := obs.byKT[kt(m.reportKey["up"], T)]
			bucketHit = ok && up.V.bits == gen.B(0)
		}
		if failed == "" && bucketHit {
			failed, info.outcome = "bucket_limit", "bucket_limit"
		}
	}

	// How every series of the body was exposed (also for a body that failed further down:
	// only the quirk model uses that, and it is the input predicate of the known finding).
	type now struct {
		sure, eligibleRejected bool
		l                      labels.Labels
		lastStr                string          // metric string of the last tracked exposure
		anyStr                 string          // ... of the last exposure that may have been tracked
		accStrs                map[string]bool // metric strings with an accepted sample
	}
	cur := map[string]*now{}
	for _, e := range exposures {
		n := cur[e.key]
		if n == nil {
			n = &now{l: e.l, accStrs: map[string]bool{}}
			cur[e.key] = n
		}
		if e.accepted && !e.uncertain {
			n.accStrs[e.str] = true
		}
		switch {
		case e.eligible && e.accepted && !e.uncertain:
			n.sure = true
			n.lastStr = e.str
		case e.eligible:
			n.eligibleRejected = true
		}
		if e.eligible && e.accepted {
			n.anyStr = e.str
		}
	}
	partial := map[string]trk{}
	partialMaybe := map[string]trk{} // could be tracked by the loop, could be not
	if failed != "" {
		for k, n := range cur {
			switch {
			case n.sure && !info.ambLimit:
				partial[k] = trk{l: n.l, sure: true, str: n.lastStr}
			case n.sure || n.eligibleRejected:
				partialMaybe[k] = trk{l: n.l, str: n.anyStr}
			}
		}
		info.partial = len(partial) + len(partialMaybe)
		if info.partial > 0 {
			m.partialSeen = true
		}
		m.book.rollback()
		bodyExp = nil
	}

	staleAt := func(key string, tr trk, may bool, sig string) {
		e := expSample{key: key, l: tr.l, t: T, v: sval{bits: gen.StaleNaNBits}, what: "stale", may: may, sig: sig}
		if may {
			info.may++
		} else {
			info.must++
		}
		if !may {
			if acc := m.book.attempt(key, T, e.v); acc != accNew {
				return // the storage refuses it (newer explicit timestamp already stored): nothing to see
			}
		}
		exp = append(exp, e)
	}
	keys := func(mm map[string]trk) []string {
		out := make([]string, 0, len(mm))
		for k := range mm {
			out = append(out, k)
		}
		sort.Strings(out)
		return out
	}
	// A series that is still exposed and tracked must not get a marker. One situation is
	// singled out (second known deviation, reported with its own signature when a marker
	// shows up): the storage has just invalidated its references and the series is now
	// exposed under another spelling (label order, format) than the one it was tracked
	// under, so the loop cannot connect the old reference with the new one.
	stillTracked := func(k string, tr trk, n *now) {
		if sc.NewRefs && (tr.str == "" || !n.accStrs[tr.str]) {
			staleAt(k, tr, true, c37KnownRespelled)
		}
	}

	next := map[string]trk{}
	if failed != "" {
		for _, k := range keys(m.trk) {
			tr := m.trk[k]
			if m.quirk {
				if _, kept := partial[k]; kept {
					stillTracked(k, tr, cur[k])
					continue
				}
				if _, open := partialMaybe[k]; open {
					staleAt(k, tr, true, "")
					continue
				}
			}
			staleAt(k, tr, !tr.sure, "")
		}
		if m.quirk {
			next = partial
			for k, tr := range partialMaybe {
				next[k] = tr
			}
		}
	} else {
		for _, e := range bodyExp {
			if e.overOnly {
				e.may = false
			}
			exp = append(exp, e)
			info.keys = append(info.keys, e.key)
		}
		for _, k := range keys(m.trk) {
			tr := m.trk[k]
			n := cur[k]
			switch {
			case n != nil && n.sure:
				stillTracked(k, tr, n)
			case n != nil:
				staleAt(k, tr, true, "")
			default:
				staleAt(k, tr, !tr.sure, "")
			}
		}
		for k, n := range cur {
			switch {
			case n.sure:
				next[k] = trk{l: n.l, sure: true, str: n.lastStr}
			case n.eligibleRejected:
				next[k] = trk{l: n.l, sure: false}
			}
		}
	}

	// Report series.
	report := func(name string, v float64, check func(sval) string) {
		e := expSample{key: m.reportKey[name], l: m.reportL[name], t: T, v: floatVal(v), what: "report", check: check}
		m.book.attempt(e.key, T, e.v)
		exp = append(exp, e)
	}
	num := func(v sval) (float64, bool) {
		f := gen.F(v.bits)
		return f, !v.isHist() && f == f && f >= 0 && f == float64(int64(f))
	}
	atMost := func(name string, max int) func(sval) string {
		return func(v sval) string {
			if f, ok := num(v); !ok || f > float64(max) {
				return fmt.Sprintf("want a count in [0,%d]", max)
			}
			return ""
		}
	}
	up := 1.0
	if failed != "" {
		up = 0
	}
	report("up", up, nil)
	report("scrape_duration_seconds", 0, func(v sval) string {
		if f := gen.F(v.bits); v.isHist() || !(f >= 0) {
			return "want a non-negative duration"
		}
		return ""
	})
	switch failed {
	case "":
		report("scrape_samples_scraped", float64(total), nil)
		report("scrape_samples_post_metric_relabeling", float64(added), nil)
		lo, hi := 0, 0
		for s := range stringsStored {
			if !m.cachedSure[s] {
				hi++
			}
			if !m.cachedMaybe[s] {
				lo++
			}
		}
		for s := range stringsMaybeStored {
			if !stringsStored[s] && !m.cachedSure[s] {
				hi++
			}
		}
		report("scrape_series_added", float64(lo), func(v sval) string {
			if f, ok := num(v); !ok || f < float64(lo) || f > float64(hi) {
				return fmt.Sprintf("want a count in [%d,%d]", lo, hi)
			}
			return ""
		})
	case "transport", "content-type":
		report("scrape_samples_scraped", 0, nil)
		report("scrape_samples_post_metric_relabeling", 0, nil)
		report("scrape_series_added", 0, nil)
	case "sample_limit", "bucket_limit":
		// the whole body was read: the counts are known, the number of new series is not defined
		report("scrape_samples_scraped", float64(total), nil)
		report("scrape_samples_post_metric_relabeling", float64(added), nil)
		report("scrape_series_added", 0, atMost("scrape_series_added", added))
	default:
		// failed in the middle of the body: only bounds are defined
		n := len(sc.Samples)
		report("scrape_samples_scraped", 0, atMost("scrape_samples_scraped", n))
		report("scrape_samples_post_metric_relabeling", 0, atMost("scrape_samples_post_metric_relabeling", n))
		report("scrape_series_added", 0, atMost("scrape_series_added", n))
	}

	err := m.compare(exp, obs, T)
	if err != nil {
		return info, err
	}
	m.book.commit()
	m.trk = next

	// Metric string cache bounds for scrape_series_added.
	switch {
	case failed == "" && bodyLen > 0:
		// a successful non-empty scrape: the loop forgets every string it did not see
		m.cachedSure = stringsStored
		m.cachedMaybe = stringsSeen
	default:
		for s := range stringsSeen {
			m.cachedMaybe[s] = true
		}
	}
	return info, nil
}

// compare: every non-optional expectation is among the committed samples with the
// right value, every committed sample is expected; optional ones that were observed
// are applied to the model's storage rules.
func (m *refModel) compare(exp []expSample, obs obsScrape, T int64) error {
	// Several expectations can meet at one (series, timestamp): a must wins; optional ones
	// are alternatives.
	want := map[string][]expSample{}
	for _, e := range exp {
		k := kt(e.key, e.t)
		prev := want[k]
		switch {
		case len(prev) > 0 && !prev[0].may:
		case !e.may:
			want[k] = []expSample{e}
		default:
			want[k] = append(prev, e)
		}
	}
	matches := func(e expSample, v sval) string {
		if e.check != nil {
			if msg := e.check(v); msg != "" {
				return fmt.Sprintf("%s: stored %s, %s", e.l.String(), v, msg)
			}
			return ""
		}
		if !e.v.equal(v) {
			return fmt.Sprintf("%s @%d: stored %s, expected %s (%s)", e.l.String(), e.t, v, e.v, e.what)
		}
		return ""
	}
	var problems []string
	for _, s := range obs.samples {
		alts, ok := want[kt(s.Key, s.T)]
		if !ok {
			what := "sample"
			if s.V.isStale() {
				what = "staleness marker"
			}
			problems = append(problems, fmt.Sprintf("unexpected %s stored: %s", what, s))
			continue
		}
		first := ""
		hit := false
		for _, e := range alts {
			msg := matches(e, s.V)
			if msg != "" {
				if first == "" {
					first = msg
				}
				continue
			}
			hit = true
			if e.may {
				m.book.attempt(e.key, e.t, e.v)
				if e.sig != "" && m.sigSeen == "" {
					m.sigSeen = e.sig
					m.sigDetail = fmt.Sprintf("%s @%d", e.l.String(), e.t)
				}
			}
			break
		}
		if !hit {
			problems = append(problems, first)
		}
	}
	ks := make([]string, 0, len(want))
	for k := range want {
		ks = append(ks, k)
	}
	sort.Strings(ks)
	for _, k := range ks {
		e := want[k][0]
		if e.may {
			continue
		}
		if _, ok := obs.byKT[k]; !ok {
			what := map[string]string{"body": "exposed sample", "stale": "staleness marker", "report": "report sample"}[e.what]
			problems = append(problems, fmt.Sprintf("missing %s: %s @%d = %s", what, e.l.String(), e.t, e.v))
		}
	}
	if len(problems) == 0 {
		return nil
	}
	if len(problems) > 12 {
		problems = append(problems[:12], fmt.Sprintf("... and %d more", len(problems)-12))
	}
	return fmt.Errorf("%s", strings.Join(problems, "\n  "))
}

// endOfRun checks the batch written when the target is removed: one staleness marker per
// tracked series and per report series, all at one timestamp after the last scrape.
func (m *refModel) endOfRun(obs obsScrape) error {
	var tEnd int64
	found := false
	for _, s := range obs.samples {
		if s.Key == m.reportKey["up"] {
			tEnd, found = s.T, true
		}
	}
	if !found {
		return fmt.Errorf("target removal: no staleness marker for the up series was stored (%d samples stored)", len(obs.samples))
	}
	if tEnd <= m.lastT {
		return fmt.Errorf("target removal: markers at %d, not after the last scrape at %d", tEnd, m.lastT)
	}
	var exp []expSample
	stale := sval{bits: gen.StaleNaNBits}
	ks := make([]string, 0, len(m.trk))
	for k := range m.trk {
		ks = append(ks, k)
	}
	sort.Strings(ks)
	for _, k := range ks {
		tr := m.trk[k]
		e := expSample{key: k, l: tr.l, t: tEnd, v: stale, what: "stale", may: !tr.sure}
		if !e.may && m.book.attempt(k, tEnd, stale) != accNew {
			continue
		}
		exp = append(exp, e)
	}
	for _, n := range reportNames {
		exp = append(exp, expSample{key: m.reportKey[n], l: m.reportL[n], t: tEnd, v: stale, what: "report"})
	}
	return m.compare(exp, obs, tEnd)
}

func buildRules(rs []c37Rule) ([]*relabel.Config, error) {
	var out []*relabel.Config
	for _, r := range rs {
		cfg := relabel.DefaultRelabelConfig
		cfg.Action = relabel.Action(r.Action)
		for _, s := range r.Source {
			cfg.SourceLabels = append(cfg.SourceLabels, model.LabelName(s))
		}
		if r.Regex != "" {
			re, err := relabel.NewRegexp(r.Regex)
			if err != nil {
				return nil, err
			}
			cfg.Regex = re
		}
		cfg.TargetLabel = r.Target
		if r.ReplSet {
			cfg.Replacement = r.Repl
		}
		cfg.NameValidationScheme = model.UTF8Validation
		if err := cfg.Validate(model.UTF8Validation); err != nil {
			return nil, err
		}
		out = append(out, &cfg)
	}
	return out, nil
}
