module verifharness

go 1.25.10

require (
	github.com/prometheus/prometheus v0.0.0
	pgregory.net/rapid v1.3.0
)

require (
	github.com/Azure/azure-sdk-for-go/sdk/azcore v1.22.0
	github.com/Azure/azure-sdk-for-go/sdk/azidentity v1.14.0
	github.com/Azure/azure-sdk-for-go/sdk/resourcemanager/compute/armcompute/v5 v5.7.0
	github.com/Azure/azure-sdk-for-go/sdk/resourcemanager/network/armnetwork/v4 v4.3.0
	github.com/Code-Hex/go-generics-cache v1.5.1
	github.com/KimMachineGun/automemlimit v0.7.5
	github.com/alecthomas/kingpin/v2 v2.4.0
	github.com/alecthomas/units v0.0.0-20240927000941-0f3dac36c52b
	github.com/aws/aws-sdk-go-v2 v1.43.4
	github.com/aws/aws-sdk-go-v2/config v1.32.35
	github.com/aws/aws-sdk-go-v2/credentials v1.19.34
	github.com/aws/aws-sdk-go-v2/service/ec2 v1.321.0
	github.com/aws/aws-sdk-go-v2/service/ecs v1.90.0
	github.com/aws/aws-sdk-go-v2/service/elasticache v1.56.4
	github.com/aws/aws-sdk-go-v2/service/kafka v1.58.0
	github.com/aws/aws-sdk-go-v2/service/lightsail v1.58.4
	github.com/aws/aws-sdk-go-v2/service/rds v1.124.1
	github.com/aws/aws-sdk-go-v2/service/sts v1.45.4
	github.com/aws/smithy-go v1.27.7
	github.com/bboreham/go-loser v0.0.0-20230920113527-fcc2c21820a3
	github.com/cespare/xxhash/v2 v2.3.0
	github.com/dennwc/varint v1.0.0
	github.com/digitalocean/godo v1.201.0
	github.com/edsrzf/mmap-go v1.2.1-0.20241212181136-fad1cd13edbd
	github.com/envoyproxy/go-control-plane/envoy v1.37.0
	github.com/envoyproxy/protoc-gen-validate v1.3.3
	github.com/facette/natsort v0.0.0-20181210072756-2cd4dd1e2dcb
	github.com/felixge/fgprof v0.9.5
	github.com/fsnotify/fsnotify v1.10.1
	github.com/go-openapi/strfmt v0.27.0
	github.com/go-zookeeper/zk v1.0.4
	github.com/gogo/protobuf v1.3.2
	github.com/golang/snappy v1.0.0
	github.com/google/go-cmp v0.7.0
	github.com/google/pprof v0.0.0-20260802141513-ef3492d7dac3
	github.com/google/uuid v1.6.0
	github.com/gophercloud/gophercloud/v2 v2.13.0
	github.com/grafana/regexp v0.0.0-20250905093917-f7b3be9d1853
	github.com/hashicorp/consul/api v1.33.7
	github.com/hashicorp/nomad/api v0.0.0-20260807203101-d78b9b59529a
	github.com/hetznercloud/hcloud-go/v2 v2.47.0
	github.com/ionos-cloud/sdk-go/v6 v6.3.11
	github.com/json-iterator/go v1.1.12
	github.com/klauspost/compress v1.19.2
	github.com/kolo/xmlrpc v0.0.0-20220921171641-a4b6fa1dd06b
	github.com/linode/linodego v1.69.1
	github.com/miekg/dns v1.1.72
	github.com/moby/moby/api v1.55.0
	github.com/moby/moby/client v0.5.1
	github.com/munnerz/goautoneg v0.0.0-20191010083416-a7dc8b61c822
	github.com/mwitkow/go-conntrack v0.0.0-20190716064945-2f068394615f
	github.com/nsf/jsondiff v0.0.0-20260207060731-8e8d90c4c0ac
	github.com/oklog/run v1.2.0
	github.com/oklog/ulid/v2 v2.1.2
	github.com/open-telemetry/opentelemetry-collector-contrib/processor/deltatocumulativeprocessor v0.157.0
	github.com/outscale/osc-sdk-go/v2 v2.34.0
	github.com/ovh/go-ovh v1.9.0
	github.com/pb33f/libopenapi v0.38.7
	github.com/pb33f/libopenapi-validator v0.14.0
	github.com/prometheus/alertmanager v0.33.1
	github.com/prometheus/client_golang v1.24.1
	github.com/prometheus/client_golang/exp v0.0.0-20260724065723-ecdb8254ba61
	github.com/prometheus/client_model v0.6.2
	github.com/prometheus/common v0.70.1
	github.com/prometheus/common/assets v0.2.0
	github.com/prometheus/exporter-toolkit v0.17.1
	github.com/prometheus/sigv4 v0.4.1
	github.com/scaleway/scaleway-sdk-go v1.0.0-beta.37
	github.com/shurcooL/httpfs v0.0.0-20230704072500-f1e31cf0ba5c
	github.com/stackitcloud/stackit-sdk-go/core v0.26.0
	github.com/stretchr/testify v1.11.1
	github.com/vultr/govultr/v3 v3.32.0
	go.opentelemetry.io/collector/component v1.63.0
	go.opentelemetry.io/collector/consumer v1.63.0
	go.opentelemetry.io/collector/pdata v1.63.0
	go.opentelemetry.io/collector/processor v1.63.0
	go.opentelemetry.io/contrib/instrumentation/net/http/httptrace/otelhttptrace v0.69.0
	go.opentelemetry.io/contrib/instrumentation/net/http/otelhttp v0.69.0
	go.opentelemetry.io/otel v1.44.0
	go.opentelemetry.io/otel/exporters/otlp/otlptrace v1.44.0
	go.opentelemetry.io/otel/exporters/otlp/otlptrace/otlptracegrpc v1.44.0
	go.opentelemetry.io/otel/exporters/otlp/otlptrace/otlptracehttp v1.44.0
	go.opentelemetry.io/otel/metric v1.44.0
	go.opentelemetry.io/otel/sdk v1.44.0
	go.opentelemetry.io/otel/trace v1.44.0
	go.uber.org/atomic v1.11.0
	go.uber.org/automaxprocs v1.6.0
	go.uber.org/goleak v1.3.0
	go.yaml.in/yaml/v2 v2.4.4
	go.yaml.in/yaml/v3 v3.0.5
	go.yaml.in/yaml/v4 v4.0.0-rc.6
	golang.org/x/oauth2 v0.36.0
	golang.org/x/sync v0.22.0
	golang.org/x/sys v0.47.0
	golang.org/x/text v0.40.0
	google.golang.org/api v0.290.0
	google.golang.org/genproto/googleapis/api v0.0.0-20260807164820-c8921c73eeea
	google.golang.org/grpc v1.82.1
	google.golang.org/protobuf v1.36.12
	k8s.io/api v0.35.3
	k8s.io/apimachinery v0.35.3
	k8s.io/client-go v0.35.3
	k8s.io/klog v1.0.0
	k8s.io/klog/v2 v2.140.0
	github.com/gofrs/flock v0.13.0 // indirect
	github.com/hashicorp/go-metrics v0.6.0 // indirect
	github.com/sony/gobreaker/v2 v2.4.0 // indirect
	github.com/youmark/pkcs8 v0.0.0-20240726163527-a2c0da244d78 // indirect
	github.com/aws/aws-sdk-go v1.55.8 // indirect
	github.com/aws/aws-sdk-go-v2/internal/v4a v1.4.36 // indirect
	github.com/aws/aws-sdk-go-v2/service/signin v1.5.4 // indirect
	github.com/bahlo/generic-list-go v0.2.0 // indirect
	github.com/basgys/goxml2json v1.1.1-0.20231018121955-e66ee54ceaad // indirect
	github.com/buger/jsonparser v1.1.2 // indirect
	github.com/go-openapi/swag/cmdutils v0.26.0 // indirect
	github.com/go-openapi/swag/conv v0.26.0 // indirect
	github.com/go-openapi/swag/fileutils v0.26.0 // indirect
	github.com/go-openapi/swag/jsonname v0.26.1 // indirect
	github.com/go-openapi/swag/jsonutils v0.26.0 // indirect
	github.com/go-openapi/swag/loading v0.26.0 // indirect
	github.com/go-openapi/swag/mangling v0.26.0 // indirect
	github.com/go-openapi/swag/netutils v0.26.0 // indirect
	github.com/go-openapi/swag/stringutils v0.26.0 // indirect
	github.com/go-openapi/swag/typeutils v0.26.0 // indirect
	github.com/go-openapi/swag/yamlutils v0.26.0 // indirect
	github.com/jmespath/go-jmespath v0.4.0 // indirect
	github.com/oracle/oci-go-sdk/v65 v65.121.1
	github.com/pb33f/jsonpath v0.8.2 // indirect
	github.com/pb33f/ordered-map/v2 v2.3.1 // indirect
	github.com/puzpuzpuz/xsync/v4 v4.5.0 // indirect
	github.com/santhosh-tekuri/jsonschema/v6 v6.0.2 // indirect
	go.opentelemetry.io/collector/internal/componentalias v0.157.0 // indirect
	go.uber.org/multierr v1.11.0 // indirect
	golang.org/x/tools/godoc v0.1.0-deprecated // indirect
	gopkg.in/yaml.v2 v2.4.0 // indirect
	gopkg.in/yaml.v3 v3.0.1 // indirect
	sigs.k8s.io/structured-merge-diff/v6 v6.3.3 // indirect
	cloud.google.com/go/auth v0.20.0 // indirect
	cloud.google.com/go/auth/oauth2adapt v0.2.8 // indirect
	cloud.google.com/go/compute/metadata v0.9.0 // indirect
	github.com/Azure/azure-sdk-for-go/sdk/internal v1.12.0 // indirect
	github.com/AzureAD/microsoft-authentication-library-for-go v1.7.2 // indirect
	github.com/Microsoft/go-winio v0.6.2 // indirect
	github.com/armon/go-metrics v0.4.1 // indirect
	github.com/aws/aws-sdk-go-v2/feature/ec2/imds v1.18.35
	github.com/aws/aws-sdk-go-v2/internal/configsources v1.4.35 // indirect
	github.com/aws/aws-sdk-go-v2/internal/endpoints/v2 v2.7.35 // indirect
	github.com/aws/aws-sdk-go-v2/service/internal/accept-encoding v1.13.15 // indirect
	github.com/aws/aws-sdk-go-v2/service/internal/presigned-url v1.13.35 // indirect
	github.com/aws/aws-sdk-go-v2/service/sso v1.33.4 // indirect
	github.com/aws/aws-sdk-go-v2/service/ssooidc v1.38.4 // indirect
	github.com/beorn7/perks v1.0.1 // indirect
	github.com/cenkalti/backoff/v5 v5.0.3
	github.com/cncf/xds/go v0.0.0-20260202195803-dba9d589def2 // indirect
	github.com/containerd/errdefs v1.0.0 // indirect
	github.com/containerd/errdefs/pkg v0.3.0 // indirect
	github.com/coreos/go-systemd/v22 v22.7.0 // indirect
	github.com/davecgh/go-spew v1.1.2-0.20180830191138-d8f796af33cc // indirect
	github.com/distribution/reference v0.6.0 // indirect
	github.com/docker/go-connections v0.7.0 // indirect
	github.com/docker/go-units v0.5.0 // indirect
	github.com/emicklei/go-restful/v3 v3.13.0 // indirect
	github.com/fatih/color v1.19.0 // indirect
	github.com/felixge/httpsnoop v1.1.0 // indirect
	github.com/fxamacker/cbor/v2 v2.9.0 // indirect
	github.com/go-logr/logr v1.4.3 // indirect
	github.com/go-logr/stdr v1.2.2 // indirect
	github.com/go-openapi/analysis v0.25.0 // indirect
	github.com/go-openapi/errors v0.22.8 // indirect
	github.com/go-openapi/jsonpointer v0.23.2 // indirect
	github.com/go-openapi/jsonreference v0.21.5 // indirect
	github.com/go-openapi/loads v0.23.3 // indirect
	github.com/go-openapi/spec v0.22.4 // indirect
	github.com/go-openapi/swag v0.26.0 // indirect
	github.com/go-openapi/validate v0.25.2 // indirect
	github.com/go-resty/resty/v2 v2.17.2 // indirect
	github.com/go-viper/mapstructure/v2 v2.5.0 // indirect
	github.com/gobwas/glob v0.2.3 // indirect
	github.com/golang-jwt/jwt/v5 v5.3.1 // indirect
	github.com/google/gnostic-models v0.7.0 // indirect
	github.com/google/go-querystring v1.2.0 // indirect
	github.com/google/s2a-go v0.1.9 // indirect
	github.com/googleapis/enterprise-certificate-proxy v0.3.18 // indirect
	github.com/googleapis/gax-go/v2 v2.23.0 // indirect
	github.com/gorilla/websocket v1.5.4-0.20250319132907-e064f32e3674 // indirect
	github.com/grpc-ecosystem/grpc-gateway/v2 v2.29.0 // indirect
	github.com/hashicorp/cronexpr v1.1.3 // indirect
	github.com/hashicorp/errwrap v1.1.0 // indirect
	github.com/hashicorp/go-cleanhttp v0.5.2 // indirect
	github.com/hashicorp/go-hclog v1.6.3 // indirect
	github.com/hashicorp/go-immutable-radix v1.3.1 // indirect
	github.com/hashicorp/go-multierror v1.1.1 // indirect
	github.com/hashicorp/go-retryablehttp v0.7.8 // indirect
	github.com/hashicorp/go-rootcerts v1.0.2 // indirect
	github.com/hashicorp/go-version v1.9.0 // indirect
	github.com/hashicorp/golang-lru v1.0.2 // indirect
	github.com/hashicorp/serf v0.10.4 // indirect
	github.com/jpillora/backoff v1.0.0 // indirect
	github.com/julienschmidt/httprouter v1.3.0 // indirect
	github.com/knadh/koanf/maps v0.1.2 // indirect
	github.com/knadh/koanf/providers/confmap v1.0.0 // indirect
	github.com/knadh/koanf/v2 v2.3.5 // indirect
	github.com/kylelemons/godebug v1.1.0 // indirect
	github.com/mattn/go-colorable v0.1.15 // indirect
	github.com/mattn/go-isatty v0.0.23 // indirect
	github.com/mdlayher/socket v0.6.0 // indirect
	github.com/mdlayher/vsock v1.3.0 // indirect
	github.com/mitchellh/copystructure v1.2.0 // indirect
	github.com/mitchellh/go-homedir v1.1.0 // indirect
	github.com/mitchellh/reflectwalk v1.0.2 // indirect
	github.com/moby/docker-image-spec v1.3.1 // indirect
	github.com/modern-go/concurrent v0.0.0-20180306012644-bacd9c7ef1dd // indirect
	github.com/modern-go/reflect2 v1.0.3-0.20250322232337-35a7c28c31ee // indirect
	github.com/open-telemetry/opentelemetry-collector-contrib/internal/exp/metrics v0.157.0 // indirect
	github.com/open-telemetry/opentelemetry-collector-contrib/pkg/pdatautil v0.157.0 // indirect
	github.com/opencontainers/go-digest v1.0.0 // indirect
	github.com/opencontainers/image-spec v1.1.1 // indirect
	github.com/pbnjay/memory v0.0.0-20210728143218-7b4eea64cf58 // indirect
	github.com/pkg/browser v0.0.0-20240102092130-5ac0b6a4141c // indirect
	github.com/planetscale/vtprotobuf v0.6.1-0.20240319094008-0393e58bdf10 // indirect
	github.com/pmezard/go-difflib v1.0.1-0.20181226105442-5d4384ee4fb2 // indirect
	github.com/prometheus/otlptranslator v1.0.0
	github.com/prometheus/procfs v0.21.1 // indirect
	github.com/spf13/pflag v1.0.10 // indirect
	github.com/stretchr/objx v0.5.2 // indirect
	github.com/x448/float16 v0.8.4 // indirect
	github.com/xhit/go-str2duration/v2 v2.1.0 // indirect
	go.opentelemetry.io/auto/sdk v1.2.1 // indirect
	go.opentelemetry.io/collector/confmap v1.63.0 // indirect
	go.opentelemetry.io/collector/confmap/xconfmap v0.157.0 // indirect
	go.opentelemetry.io/collector/featuregate v1.63.0 // indirect
	go.opentelemetry.io/collector/pipeline v1.63.0 // indirect
	go.opentelemetry.io/proto/otlp v1.10.0 // indirect
	go.uber.org/zap v1.28.0 // indirect
	golang.org/x/crypto v0.54.0 // indirect
	golang.org/x/exp v0.0.0-20260709172345-9ea1abe57597 // indirect
	golang.org/x/mod v0.38.0 // indirect
	golang.org/x/net v0.57.0 // indirect
	golang.org/x/term v0.45.0 // indirect
	golang.org/x/time v0.15.0
	golang.org/x/tools v0.48.0 // indirect
	google.golang.org/genproto/googleapis/rpc v0.0.0-20260729162451-8efbd57d26e0 // indirect
	gopkg.in/evanphx/json-patch.v4 v4.13.0 // indirect
	gopkg.in/inf.v0 v0.9.1 // indirect
	gopkg.in/ini.v1 v1.67.2 // indirect
	k8s.io/kube-openapi v0.0.0-20260317180543-43fb72c5454a // indirect
	k8s.io/utils v0.0.0-20260210185600-b8788abfbbc2 // indirect
	sigs.k8s.io/json v0.0.0-20250730193827-2d320260d730 // indirect
	sigs.k8s.io/randfill v1.0.0 // indirect
	sigs.k8s.io/yaml v1.6.0 // indirect
)

replace github.com/prometheus/prometheus => /repo

replace cloud.google.com/go => cloud.google.com/go v0.123.0
