package chunkenc

import (
	"context"
	"fmt"
	"math"
	"sort"
	"testing"

	"github.com/prometheus/common/promslog"
	"github.com/prometheus/prometheus/model/histogram"
	"github.com/prometheus/prometheus/storage"
	"github.com/prometheus/prometheus/tsdb"
	"github.com/prometheus/prometheus/tsdb/chunkenc"
	"github.com/prometheus/prometheus/tsdb/chunks"
	"pgregory.net/rapid"

	"verifharness/internal/ev"
	"verifharness/internal/gen"
)

// C12 — a returned NotCounterReset hint is sound with respect to the preceding sample of
// the same result.

// c12Predicate is the pure oracle over one returned sample sequence. It returns the
// number of NotCounterReset samples seen.
func c12Predicate(where string, obs []hsObs) (int, error) {
	n := 0
	for i, o := range obs {
		if i > 0 && o.T <= obs[i-1].T {
			return n, ev.Failf("%s: timestamps not strictly increasing at position %d (%d after %d)", where, i, o.T, obs[i-1].T)
		}
		if o.S.Stale || o.S.Hint != histogram.NotCounterReset {
			continue
		}
		n++
		if i == 0 {
			return n, ev.Failf("%s: first returned sample (t=%d) is marked NotCounterReset but has no preceding sample in the result: %v", where, o.T, o.S)
		}
		p := obs[i-1].S
		bad := ""
		switch {
		case p.Stale:
			bad = "the preceding sample is a staleness marker"
		case p.Schema != o.S.Schema:
			bad = "schema differs from the preceding sample"
		case p.ZT != o.S.ZT:
			bad = "zero threshold differs from the preceding sample"
		case fmt.Sprint(p.CV) != fmt.Sprint(o.S.CV):
			bad = "custom bounds differ from the preceding sample"
		case o.S.Count < p.Count:
			bad = "count is lower than in the preceding sample"
		case o.S.ZC < p.ZC:
			bad = "zero count is lower than in the preceding sample"
		}
		if bad == "" {
			for k, v := range p.Pos {
				if o.S.Pos[k] < v {
					bad = fmt.Sprintf("positive bucket %d is lower than in the preceding sample", k)
				}
			}
			for k, v := range p.Neg {
				if o.S.Neg[k] < v {
					bad = fmt.Sprintf("negative bucket %d is lower than in the preceding sample", k)
				}
			}
		}
		if bad != "" {
			return n, ev.Failf("%s: sample at t=%d is marked NotCounterReset but %s:\n  preceding (t=%d) %v\n  marked           %v", where, o.T, bad, obs[i-1].T, p, o.S)
		}
	}
	return n, nil
}

// c12History classifies what the appended history contains (for the non-trivial rule).
func c12History(samples []hsSample, r *ev.Rec) (decrease, layoutChange bool) {
	var prev *sem
	var prevLayout string
	for _, s := range samples {
		if s.Stale {
			continue
		}
		cur := s.sem()
		layout := fmt.Sprint(s.H.PS, s.H.NS)
		if prev != nil {
			dec := cur.Count < prev.Count || cur.ZC < prev.ZC
			for k, v := range prev.Pos {
				if cur.Pos[k] < v {
					dec = true
				}
			}
			for k, v := range prev.Neg {
				if cur.Neg[k] < v {
					dec = true
				}
			}
			if dec {
				decrease = true
			}
			if layout != prevLayout || cur.Schema != prev.Schema || cur.ZT != prev.ZT {
				layoutChange = true
			}
		}
		c := cur
		prev, prevLayout = &c, layout
	}
	if decrease {
		r.Class("history:decrease")
	}
	if layoutChange {
		r.Class("history:layout-change")
	}
	return decrease, layoutChange
}

// ---------------------------------------------------------------- chunk level

type c12Case struct {
	ST       bool
	S        []hsSample
	Replicas [][]int `json:",omitempty"` // sample indices held by each replica series (sorted)
}

func genC12(t *rapid.T) c12Case {
	c := c12Case{ST: rapid.Bool().Draw(t, "stenc")}
	t0 := rapid.SampledFrom([]int64{0, 1000, 1_700_000_000_000}).Draw(t, "t0")
	c.S = genHistSeq(t, hsOpts{CounterOnly: true, OneFlavour: rapid.IntRange(0, 3).Draw(t, "oneflavour") > 0, MaxLen: 120}, t0, c11TStep)
	nrep := rapid.SampledFrom([]int{0, 2, 2, 3}).Draw(t, "nrep")
	for i := 0; i < nrep; i++ {
		var idx []int
		mode := rapid.IntRange(0, 3).Draw(t, "repmode")
		lo := rapid.IntRange(0, len(c.S)-1).Draw(t, "replo")
		hi := rapid.IntRange(lo, len(c.S)-1).Draw(t, "rephi")
		if mode == 0 {
			lo, hi = 0, len(c.S)-1
		}
		for k := lo; k <= hi; k++ {
			switch mode {
			case 1: // every other sample: merges interleave sample by sample
				if k%nrep != i {
					continue
				}
			case 2:
				if rapid.IntRange(0, 2).Draw(t, "repskip") == 0 {
					continue
				}
			}
			idx = append(idx, k)
		}
		if len(idx) > 0 {
			c.Replicas = append(c.Replicas, idx)
		}
	}
	return c
}

func chunkSeries(chks []chunkenc.Chunk) storage.Series {
	var parts []storage.Series
	for _, chk := range chks {
		chk := chk
		parts = append(parts, &storage.SeriesEntry{Lset: hsLabels, SampleIteratorFn: func(it chunkenc.Iterator) chunkenc.Iterator { return chk.Iterator(it) }})
	}
	// the composition storage.NewSeriesSetFromChunkSeriesSet uses for the chunks of one series
	return storage.ChainedSeriesMerge(parts...)
}

func subSamples(s []hsSample, idx []int) []hsSample {
	out := make([]hsSample, 0, len(idx))
	for _, k := range idx {
		x := s[k]
		out = append(out, x)
	}
	return out
}

func runC12(c c12Case, r *ev.Rec) error {
	if len(c.S) == 0 || !hsValid(c.S) {
		r.Discard()
		return nil
	}
	for _, s := range c.S {
		if !s.Stale && s.H.Hint == uint8(histogram.GaugeType) {
			r.Discard()
			return nil
		}
	}
	hsClasses(c.S, r)
	dec, lay := c12History(c.S, r)
	total := 0
	b, err := hsBuildDirect(c.S, c.ST)
	if err != nil {
		return err
	}
	r.Count("chunks", len(b.chunks))
	for ci, chk := range b.chunks {
		obs, err := hsDrain(chk.Iterator(nil))
		if err != nil {
			return err
		}
		n, err := c12Predicate(fmt.Sprintf("chunk %d (samples from %d) iterator", ci, b.firstIdx[ci]), obs)
		if err != nil {
			return err
		}
		total += n
	}
	whole := chunkSeries(b.chunks)
	obs, err := hsDrain(whole.Iterator(nil))
	if err != nil {
		return err
	}
	if len(obs) != len(c.S) {
		return ev.Failf("series over %d chunks returned %d samples, %d appended", len(b.chunks), len(obs), len(c.S))
	}
	n, err := c12Predicate("ChainedSeriesMerge over the chunks of one series", obs)
	if err != nil {
		return err
	}
	total += n
	// re-encoding (compaction path)
	reenc := func(where string, s storage.Series) error {
		cit := storage.NewSeriesToChunkEncoder(s).Iterator(nil)
		var chks []chunkenc.Chunk
		for cit.Next() {
			m := cit.At()
			o, err := hsDrain(m.Chunk.Iterator(nil))
			if err != nil {
				return err
			}
			n, err := c12Predicate(where+": re-encoded chunk iterator", o)
			if err != nil {
				return err
			}
			total += n
			chks = append(chks, m.Chunk)
		}
		if err := cit.Err(); err != nil {
			return ev.Failf("%s: NewSeriesToChunkEncoder: %v", where, err)
		}
		o, err := hsDrain(chunkSeries(chks).Iterator(nil))
		if err != nil {
			return err
		}
		n, err := c12Predicate(where+": series over re-encoded chunks", o)
		total += n
		return err
	}
	if err := reenc("single series", whole); err != nil {
		return err
	}
	merged := false
	if len(c.Replicas) >= 2 {
		var reps []storage.Series
		union := map[int]bool{}
		for _, idx := range c.Replicas {
			rb, err := hsBuildDirect(subSamples(c.S, idx), c.ST)
			if err != nil {
				return err
			}
			reps = append(reps, chunkSeries(rb.chunks))
			for _, k := range idx {
				union[k] = true
			}
		}
		m := storage.ChainedSeriesMerge(reps...)
		o, err := hsDrain(m.Iterator(nil))
		if err != nil {
			return err
		}
		if len(o) != len(union) {
			return ev.Failf("merge of %d replicas returned %d samples, the replicas hold %d distinct timestamps", len(reps), len(o), len(union))
		}
		n, err := c12Predicate(fmt.Sprintf("ChainedSeriesMerge of %d replicas", len(reps)), o)
		if err != nil {
			return err
		}
		total += n
		if err := reenc("merged replicas", m); err != nil {
			return err
		}
		merged = true
		r.Class("merged-replicas")
	}
	r.Count("not-counter-reset-samples", total)
	if total > 0 && (dec || lay || merged) {
		r.NonTrivial()
	}
	return nil
}

func TestC12(t *testing.T) {
	ev.Check(t, "C12",
		"counter-only evolving histogram sequences (C11 generator plus deliberate decreases of single buckets / zero bucket / count with compensation elsewhere, dropped buckets, layout changes, explicit hints incl. lying NotCounterReset inputs) appended through chunk appenders (contract as the head), read through every chunk iterator, through ChainedSeriesMerge over the chunks, through NewSeriesToChunkEncoder re-encoding, and as 2-3 overlapping/interleaving replicas merged with ChainedSeriesMerge; oracle: pure predicate on each returned sequence (NotCounterReset => preceding sample exists, non-stale, same schema/zero threshold/custom bounds, no count/zero count/bucket lower). Non-trivial: >=1 NotCounterReset sample returned and the history has a decrease, a layout change or a replica merge; distinct by case hash.",
		genC12, runC12, ev.Opts{Part: "chunks"})
}

// ---------------------------------------------------------------- real TSDB

type c12Op struct {
	Kind string // append | mmap | compact-head | compact-ooo | reopen | query
	Idx  []int  `json:",omitempty"`
	Arg  int    `json:",omitempty"` // compact-head: index of the sample whose timestamp bounds the compaction
}

type c12DBCase struct {
	Cfg    hsDBCfg
	S      []hsSample
	Blocks [][]int `json:",omitempty"` // blocks created before the DB is opened
	Script []c12Op
}

func genC12DB(t *rapid.T) c12DBCase {
	c := c12DBCase{}
	c.Cfg.Range = rapid.SampledFrom([]int64{1000, 4000}).Draw(t, "range")
	c.Cfg.HistST = rapid.Bool().Draw(t, "histst")
	c.Cfg.V2 = rapid.Bool().Draw(t, "v2")
	c.Cfg.OOOWindow = c.Cfg.Range * int64(rapid.SampledFrom([]int{0, 2, 20, 1000}).Draw(t, "ooowindow"))
	c.Cfg.OOOCap = int64(rapid.SampledFrom([]int{4, 8, 32}).Draw(t, "ooocap"))
	c.Cfg.Batch = 1
	rng := c.Cfg.Range
	step := func(t *rapid.T) int64 {
		switch rapid.IntRange(0, 5).Draw(t, "tstepclass") {
		case 0:
			return 1
		case 1:
			return rng / 4
		case 2:
			return int64(rapid.IntRange(1, int(rng)).Draw(t, "tstepany"))
		default:
			return rng / 16
		}
	}
	c.S = genHistSeq(t, hsOpts{CounterOnly: true, OneFlavour: rapid.IntRange(0, 3).Draw(t, "oneflavour") > 0, MaxLen: 60}, rng*100, step)
	n := len(c.S)
	// blocks over the older part
	a := 0
	if n >= 4 && rapid.Bool().Draw(t, "useblocks") {
		a = rapid.IntRange(1, n*2/3).Draw(t, "blockpart")
		nb := rapid.SampledFrom([]int{1, 2, 2, 2, 3}).Draw(t, "nblocks")
		for i := 0; i < nb; i++ {
			lo := rapid.IntRange(0, a-1).Draw(t, "blo")
			hi := rapid.IntRange(lo, a-1).Draw(t, "bhi")
			mode := rapid.IntRange(0, 2).Draw(t, "bmode")
			if mode == 0 || i == 0 {
				lo, hi = 0, a-1
			}
			var idx []int
			for k := lo; k <= hi; k++ {
				if mode == 1 && k%nb != i {
					continue
				}
				if mode == 2 && rapid.IntRange(0, 2).Draw(t, "bskip") == 0 {
					continue
				}
				idx = append(idx, k)
			}
			if len(idx) > 0 {
				c.Blocks = append(c.Blocks, idx)
			}
		}
		if len(c.Blocks) == 0 {
			a = 0
		}
	}
	// head appends in time order with held-back (out-of-order) samples
	type held struct{ k, release int }
	var pending []held
	var order []int
	pos := 0
	for k := a; k < n; k++ {
		if c.Cfg.OOOWindow > 0 && k > a && rapid.IntRange(0, 3).Draw(t, "hold") == 0 {
			pending = append(pending, held{k, pos + rapid.IntRange(1, 6).Draw(t, "holdfor")})
			continue
		}
		order = append(order, k)
		pos++
		rest := pending[:0]
		for _, h := range pending {
			if h.release <= pos {
				order = append(order, h.k)
				pos++
			} else {
				rest = append(rest, h)
			}
		}
		pending = rest
	}
	for _, h := range pending {
		order = append(order, h.k)
	}
	if c.Cfg.OOOWindow > 0 && a > 0 && rapid.IntRange(0, 3).Draw(t, "oooold") == 0 {
		// also try samples that the blocks already cover
		order = append(order, rapid.IntRange(0, a-1).Draw(t, "oooidx"))
	}
	heavy := 0 // block writes and reopens cost ~100 ms each: bounded per case
	for i := 0; i < len(order); {
		m := rapid.IntRange(1, 6).Draw(t, "batch")
		if i+m > len(order) {
			m = len(order) - i
		}
		c.Script = append(c.Script, c12Op{Kind: "append", Idx: append([]int(nil), order[i:i+m]...)})
		i += m
		switch rapid.IntRange(0, 31).Draw(t, "op") {
		case 0, 1, 2, 3, 4, 5, 6, 7:
			c.Script = append(c.Script, c12Op{Kind: "query"})
		case 8, 9:
			c.Script = append(c.Script, c12Op{Kind: "mmap"})
		case 10, 11:
			if heavy < 3 {
				heavy++
				c.Script = append(c.Script, c12Op{Kind: "compact-ooo"})
			}
		case 12:
			if heavy < 3 {
				heavy++
				c.Script = append(c.Script, c12Op{Kind: "compact-head", Arg: order[rapid.IntRange(0, i-1).Draw(t, "compactupto")]})
			}
		case 13:
			if heavy < 3 {
				heavy++
				c.Script = append(c.Script, c12Op{Kind: "reopen"})
			}
		}
	}
	c.Script = append(c.Script, c12Op{Kind: "query"})
	if rapid.IntRange(0, 2).Draw(t, "finalcompact") == 0 {
		c.Script = append(c.Script, c12Op{Kind: "compact-ooo"}, c12Op{Kind: "query"})
	}
	return c
}

type c12Sample struct {
	t  int64
	h  *histogram.Histogram
	fh *histogram.FloatHistogram
}

func (s c12Sample) T() int64                      { return s.t }
func (s c12Sample) ST() int64                     { return 0 }
func (s c12Sample) F() float64                    { return 0 }
func (s c12Sample) H() *histogram.Histogram       { return s.h }
func (s c12Sample) FH() *histogram.FloatHistogram { return s.fh }
func (s c12Sample) Type() chunkenc.ValueType {
	if s.fh != nil {
		return chunkenc.ValFloatHistogram
	}
	return chunkenc.ValHistogram
}

func (s c12Sample) Copy() chunks.Sample {
	c := c12Sample{t: s.t}
	if s.h != nil {
		c.h = s.h.Copy()
	}
	if s.fh != nil {
		c.fh = s.fh.Copy()
	}
	return c
}

func runC12DB(c c12DBCase, r *ev.Rec) error {
	if len(c.S) == 0 || !hsValid(c.S) || c.Cfg.Range <= 0 {
		r.Discard()
		return nil
	}
	for _, s := range c.S {
		if !s.Stale && s.H.Hint == uint8(histogram.GaugeType) {
			r.Discard()
			return nil
		}
	}
	for _, op := range c.Script {
		for _, k := range op.Idx {
			if k < 0 || k >= len(c.S) {
				r.Discard()
				return nil
			}
		}
	}
	hsClasses(c.S, r)
	dec, lay := c12History(c.S, r)
	dir, cleanup, err := hsTmpDir("c12")
	if err != nil {
		return err
	}
	defer cleanup()
	for _, idx := range c.Blocks {
		var smp []chunks.Sample
		for _, k := range idx {
			if k < 0 || k >= len(c.S) {
				r.Discard()
				return nil
			}
			s := c.S[k]
			if s.isFloat() {
				smp = append(smp, c12Sample{t: s.T, fh: s.floatH()})
			} else {
				smp = append(smp, c12Sample{t: s.T, h: s.intH()})
			}
		}
		if _, err := tsdb.CreateBlock([]storage.Series{storage.NewListSeries(hsLabels, smp)}, dir, c.Cfg.Range*16, promslog.NewNopLogger()); err != nil {
			return ev.Failf("CreateBlock: %v", err)
		}
	}
	if len(c.Blocks) > 1 {
		r.Class("overlapping-blocks")
	}
	db, err := hsOpenDB(dir, c.Cfg)
	if err != nil {
		return ev.Failf("tsdb.Open: %v", err)
	}
	defer func() { db.Close() }()
	total := 0
	merges := len(c.Blocks) > 1
	oooAccepted := 0
	var headMax int64 = math.MinInt64
	query := func(stage string) error {
		q, err := db.Querier(math.MinInt64, math.MaxInt64)
		if err != nil {
			return ev.Failf("%s: Querier: %v", stage, err)
		}
		obs, err := hsQuery(q)
		if err != nil {
			return ev.Failf("%s: %v", stage, err)
		}
		n, err := c12Predicate(stage+": DB.Querier", obs)
		if err != nil {
			return err
		}
		total += n
		cq, err := db.ChunkQuerier(math.MinInt64, math.MaxInt64)
		if err != nil {
			return ev.Failf("%s: ChunkQuerier: %v", stage, err)
		}
		chks, err := hsQueryChunks(cq)
		if err != nil {
			return ev.Failf("%s: %v", stage, err)
		}
		for i, o := range chks {
			n, err := c12Predicate(fmt.Sprintf("%s: chunk %d of DB.ChunkQuerier", stage, i), o)
			if err != nil {
				return err
			}
			total += n
		}
		for _, b := range db.Blocks() {
			bq, err := tsdb.NewBlockQuerier(b, math.MinInt64, math.MaxInt64)
			if err != nil {
				return ev.Failf("NewBlockQuerier: %v", err)
			}
			obs, err := hsQuery(bq)
			if err != nil {
				return ev.Failf("%s: block: %v", stage, err)
			}
			n, err := c12Predicate(fmt.Sprintf("%s: block %s querier", stage, b.Meta().ULID), obs)
			if err != nil {
				return err
			}
			total += n
		}
		return nil
	}
	nq := 0
	for oi, op := range c.Script {
		stage := fmt.Sprintf("step %d %s", oi, op.Kind)
		switch op.Kind {
		case "append":
			for _, k := range op.Idx {
				s := c.S[k]
				var h *histogram.Histogram
				var fh *histogram.FloatHistogram
				if s.isFloat() {
					fh = s.floatH()
				} else {
					h = s.intH()
				}
				var aerr error
				if c.Cfg.V2 {
					app := db.AppenderV2(context.Background())
					if _, aerr = app.Append(0, hsLabels, 0, s.T, 0, h, fh, storage.AppendV2Options{}); aerr == nil {
						aerr = app.Commit()
					} else {
						_ = app.Rollback()
					}
				} else {
					app := db.Appender(context.Background())
					if _, aerr = app.AppendHistogram(0, hsLabels, s.T, h, fh); aerr == nil {
						aerr = app.Commit()
					} else {
						_ = app.Rollback()
					}
				}
				if aerr != nil {
					r.Class("append-rejected") // admission is not this property's business
					continue
				}
				if s.T < headMax {
					oooAccepted++
				} else {
					headMax = s.T
				}
			}
		case "mmap":
			db.ForceHeadMMap()
		case "compact-ooo":
			if err := db.CompactOOOHead(context.Background()); err != nil {
				return ev.Failf("%s: %v", stage, err)
			}
		case "compact-head":
			if op.Arg < 0 || op.Arg >= len(c.S) {
				continue
			}
			h := db.Head()
			if h.MinTime() > h.MaxTime() || h.MinTime() == math.MaxInt64 {
				continue
			}
			maxt := c.S[op.Arg].T
			if maxt < h.MinTime() {
				continue
			}
			if maxt > h.MaxTime() {
				maxt = h.MaxTime()
			}
			if err := db.CompactHead(tsdb.NewRangeHead(h, h.MinTime(), maxt)); err != nil {
				return ev.Failf("%s: %v", stage, err)
			}
			r.Class("op:compact-head")
		case "reopen":
			if err := db.Close(); err != nil {
				return ev.Failf("%s: close: %v", stage, err)
			}
			db, err = hsOpenDB(dir, c.Cfg)
			if err != nil {
				return ev.Failf("%s: %v", stage, err)
			}
			r.Class("op:reopen")
		case "query":
			nq++
			if err := query(stage); err != nil {
				return err
			}
		}
	}
	if oooAccepted > 0 {
		r.Class("ooo-accepted")
		merges = true
	}
	if len(db.Blocks()) > 0 {
		r.Class("has-blocks")
	}
	r.Count("not-counter-reset-samples", total)
	if total > 0 && (dec || lay || merges) {
		r.NonTrivial()
	}
	return nil
}

func TestC12DB(t *testing.T) {
	ev.Check(t, "C12",
		"counter-only histogram sequences (1-60 samples) for one series of a real TSDB: 0-3 pre-created, possibly overlapping / interleaving blocks over the older part, the rest appended to the head in time order with held-back samples arriving out of order (OOO window 0/small/large, small OOO chunk cap), interleaved with ForceHeadMMap, CompactOOOHead, CompactHead, reopen; every query step reads everything through DB.Querier, every chunk of DB.ChunkQuerier and every block's own querier and applies the same pure predicate; append rejections are ignored (admission is not owned here). Non-trivial: >=1 NotCounterReset sample returned and the history has a decrease, a layout change, overlapping blocks or an accepted out-of-order sample; distinct by case hash.",
		genC12DB, runC12DB, ev.Opts{Part: "db"})
}

var _ = sort.Ints
var _ = gen.B
