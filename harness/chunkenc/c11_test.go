package chunkenc

import (
	"context"
	"math"
	"testing"

	"github.com/prometheus/prometheus/model/histogram"
	"github.com/prometheus/prometheus/tsdb"
	"github.com/prometheus/prometheus/tsdb/chunkenc"
	"pgregory.net/rapid"

	"verifharness/internal/ev"
)

// C11 — native histograms are stored and read back faithfully (direct chunk appenders
// and a real head: head / m-mapped / restart / compacted block).

type c11Case struct {
	ST bool // ST-capable chunk encodings
	S  []hsSample
}

func c11TStep(t *rapid.T) int64 {
	switch rapid.IntRange(0, 5).Draw(t, "tstepclass") {
	case 0:
		return 1
	case 1:
		return 15000
	case 2:
		return int64(rapid.IntRange(1, 100).Draw(t, "tstepsmall"))
	case 3:
		return int64(rapid.IntRange(14000, 16000).Draw(t, "tstepjitter"))
	case 4:
		return rapid.Int64Range(1, 1<<40).Draw(t, "tstepbig")
	default:
		return 60000
	}
}

func genC11(t *rapid.T) c11Case {
	c := c11Case{ST: rapid.Bool().Draw(t, "stenc")}
	t0 := rapid.SampledFrom([]int64{0, 1, -1, 1_700_000_000_000, -(1 << 40), 1 << 50, 12345}).Draw(t, "t0")
	c.S = genHistSeq(t, hsOpts{}, t0, c11TStep)
	return c
}

// hsValid is the generator self-check: every generated histogram must be valid.
func hsValid(samples []hsSample) bool {
	for i, s := range samples {
		if i > 0 && s.T <= samples[i-1].T {
			return false
		}
		if s.Stale {
			continue
		}
		if s.isFloat() {
			if s.floatH().Validate() != nil {
				return false
			}
		} else if s.intH().Validate() != nil {
			return false
		}
	}
	return true
}

func hsClasses(samples []hsSample, r *ev.Rec) {
	nStale, nFloat, nGauge, nCustom := 0, 0, 0, 0
	for _, s := range samples {
		switch {
		case s.Stale:
			nStale++
		case s.H.Hint == uint8(histogram.GaugeType):
			nGauge++
		}
		if s.isFloat() {
			nFloat++
		}
		if !s.Stale && s.H.Schema == histogram.CustomBucketsSchema {
			nCustom++
		}
	}
	if nStale > 0 {
		r.Class("has-stale")
	}
	if nGauge > 0 {
		r.Class("has-gauge")
	}
	if nCustom > 0 {
		r.Class("has-custom")
	}
	switch {
	case nFloat == 0:
		r.Class("flavour:int")
	case nFloat == len(samples):
		r.Class("flavour:float")
	default:
		r.Class("flavour:mixed")
	}
	switch n := len(samples); {
	case n < 3:
		r.Class("len:<3")
	case n <= 24:
		r.Class("len:3-24")
	default:
		r.Class("len:25+")
	}
}

// hsCompareObs checks the read-back samples against the appended ones.
func hsCompareObs(where string, samples []hsSample, want []sem, idx []int, got []hsObs, checkST, stEnc bool) error {
	if len(got) != len(idx) {
		ts := []int64{}
		for _, o := range got {
			ts = append(ts, o.T)
		}
		return ev.Failf("%s: appended %d samples, read back %d (timestamps read %v)", where, len(idx), len(got), ts)
	}
	for j, k := range idx {
		s, o := samples[k], got[j]
		if o.T != s.T {
			return ev.Failf("%s: sample %d has t=%d, appended t=%d", where, k, o.T, s.T)
		}
		if d := semDiff(want[k], o.S); d != "" {
			return ev.Failf("%s: sample %d (t=%d) differs in %s:\n  appended %v\n  read     %v", where, k, s.T, d, want[k], o.S)
		}
		if !o.S.Stale && o.S.Float != s.isFloat() {
			return ev.Failf("%s: sample %d (t=%d) appended as float=%v, read back as float=%v", where, k, s.T, s.isFloat(), o.S.Float)
		}
		if checkST {
			wst := int64(0)
			if stEnc {
				wst = s.ST
			}
			if o.ST != wst {
				return ev.Failf("%s: sample %d (t=%d) start timestamp %d, want %d", where, k, s.T, o.ST, wst)
			}
		}
	}
	return nil
}

func hsInputsUnchanged(samples []hsSample, want []sem, ints []*histogram.Histogram, floats []*histogram.FloatHistogram) error {
	for i := range samples {
		var now sem
		switch {
		case floats[i] != nil:
			now = semOfFloat(floats[i])
			if floats[i].Validate() != nil && !samples[i].Stale {
				return ev.Failf("caller-owned float histogram of sample %d is no longer valid after appending: %v", i, floats[i].Validate())
			}
		case ints[i] != nil:
			now = semOfInt(ints[i])
			if ints[i].Validate() != nil && !samples[i].Stale {
				return ev.Failf("caller-owned histogram of sample %d is no longer valid after appending: %v", i, ints[i].Validate())
			}
		default:
			continue
		}
		if d := semDiff(want[i], now); d != "" {
			return ev.Failf("caller-owned histogram of sample %d (t=%d) changed its meaning (%s) while being appended:\n  before %v\n  after  %v", i, samples[i].T, d, want[i], now)
		}
		if !now.Stale && now.Hint != want[i].Hint {
			return ev.Failf("caller-owned histogram of sample %d: counter reset hint changed from %d to %d", i, want[i].Hint, now.Hint)
		}
	}
	return nil
}

func runC11Direct(c c11Case, r *ev.Rec) error {
	if len(c.S) == 0 || !hsValid(c.S) {
		r.Discard()
		return nil
	}
	hsClasses(c.S, r)
	if c.ST {
		r.Class("enc:ST")
	} else {
		r.Class("enc:plain")
	}
	want := make([]sem, len(c.S))
	for i, s := range c.S {
		want[i] = s.sem()
	}
	b, err := hsBuildDirect(c.S, c.ST)
	if err != nil {
		return err
	}
	r.Count("recode-forward", b.recodes)
	r.Count("recode-backward", b.backward)
	r.Count("new-chunk-incompatible", b.incompat)
	r.Count("appendonly-error", b.aoErr)
	if b.recodes > 0 {
		r.Class("case:recode-forward")
	}
	if b.backward > 0 {
		r.Class("case:recode-backward")
	}
	if b.incompat > 0 {
		r.Class("case:new-chunk")
	}
	if b.recodes+b.backward+b.incompat > 0 {
		r.NonTrivial()
	}
	var reuseIt chunkenc.Iterator
	var hReuse histogram.Histogram
	var fhReuse histogram.FloatHistogram
	for ci, chk := range b.chunks {
		lo := b.firstIdx[ci]
		hi := len(c.S)
		if ci+1 < len(b.chunks) {
			hi = b.firstIdx[ci+1]
		}
		idx := make([]int, 0, hi-lo)
		for k := lo; k < hi; k++ {
			idx = append(idx, k)
		}
		isFloat := c.S[lo].isFloat()
		if chk.Encoding() != hsEnc(isFloat, c.ST) {
			return ev.Failf("chunk %d has encoding %v, want %v", ci, chk.Encoding(), hsEnc(isFloat, c.ST))
		}
		if chk.NumSamples() != hi-lo {
			return ev.Failf("chunk %d: NumSamples=%d, the appender return values say it holds samples %d..%d", ci, chk.NumSamples(), lo, hi-1)
		}
		// pass 1: fresh iterator on the serialized bytes, fresh histogram objects, interpreted after the iteration
		c2, err := chunkenc.FromData(chk.Encoding(), append([]byte(nil), chk.Bytes()...))
		if err != nil {
			return ev.Failf("FromData: %v", err)
		}
		obs, err := hsDrain(c2.Iterator(nil))
		if err != nil {
			return err
		}
		if err := hsCompareObs("chunk iterator (fresh objects)", c.S, want, idx, obs, true, c.ST); err != nil {
			return err
		}
		// pass 2: re-used iterator and re-used histogram objects, compared immediately;
		// integer chunks are additionally read through AtFloatHistogram.
		reuseIt = chk.Iterator(reuseIt)
		for _, k := range idx {
			vt := reuseIt.Next()
			wantVT := chunkenc.ValHistogram
			if isFloat {
				wantVT = chunkenc.ValFloatHistogram
			}
			if vt != wantVT {
				return ev.Failf("chunk %d re-used iterator: Next returned %v at sample %d (err %v)", ci, vt, k, reuseIt.Err())
			}
			var got sem
			var tt int64
			if isFloat {
				var fh *histogram.FloatHistogram
				tt, fh = reuseIt.AtFloatHistogram(&fhReuse)
				got = semOfFloat(fh)
			} else {
				var h *histogram.Histogram
				tt, h = reuseIt.AtHistogram(&hReuse)
				got = semOfInt(h)
				_, fh := reuseIt.AtFloatHistogram(&fhReuse)
				if d := semDiff(want[k], semOfFloat(fh)); d != "" {
					return ev.Failf("integer chunk read through AtFloatHistogram: sample %d differs in %s:\n  appended %v\n  read     %v", k, d, want[k], semOfFloat(fh))
				}
			}
			if tt != c.S[k].T || reuseIt.AtT() != c.S[k].T {
				return ev.Failf("chunk %d re-used iterator: sample %d t=%d/%d want %d", ci, k, tt, reuseIt.AtT(), c.S[k].T)
			}
			if d := semDiff(want[k], got); d != "" {
				return ev.Failf("chunk %d re-used iterator/objects: sample %d (t=%d) differs in %s:\n  appended %v\n  read     %v", ci, k, c.S[k].T, d, want[k], got)
			}
		}
		if vt := reuseIt.Next(); vt != chunkenc.ValNone || reuseIt.Err() != nil {
			return ev.Failf("chunk %d: iterator not exhausted after %d samples (%v, err %v)", ci, hi-lo, vt, reuseIt.Err())
		}
	}
	return hsInputsUnchanged(c.S, want, b.ints, b.floats)
}

func TestC11(t *testing.T) {
	ev.Check(t, "C11",
		"evolving sequence of 1-200 valid int/float histograms (increase, new buckets before/inside/after, decreases, dropped buckets, shifts, schema / zero-threshold / custom-bound changes, restarts, gauge and flavour toggles, stale markers; layouts drawn with kept empty buckets, extra empty buckets, zero-length spans and zero-offset splits) appended through chunk appenders following the AppendHistogram contract (plain or ST encodings, caller cuts, appendOnly probes); every chunk read back (fresh objects from serialized bytes, re-used iterator/objects, AtFloatHistogram on int chunks) and compared by schema, zero threshold, custom bounds, count, sum bits, zero count and bucket map; caller-owned inputs compared with their pre-append meaning. Non-trivial: >=1 forward recode, backward-insert rewrite of an input, or appender-requested new chunk; distinct by case hash.",
		genC11, runC11Direct, ev.Opts{Part: "direct"})
}

// ---------------------------------------------------------------- head path

type c11HeadCase struct {
	Cfg     hsDBCfg
	Compact string // head (CompactHead over everything) | db (DB.Compact: range-aligned blocks, rest stays in the head)
	S       []hsSample
}

func genC11Head(t *rapid.T) c11HeadCase {
	c := c11HeadCase{}
	c.Cfg.Range = rapid.SampledFrom([]int64{200, 1000, 10000}).Draw(t, "range")
	c.Cfg.HistST = rapid.Bool().Draw(t, "histst")
	c.Cfg.STStorage = rapid.Bool().Draw(t, "ststorage")
	c.Cfg.V2 = rapid.Bool().Draw(t, "v2")
	c.Cfg.Batch = rapid.SampledFrom([]int{1, 1, 2, 5, 50}).Draw(t, "batch")
	c.Compact = rapid.SampledFrom([]string{"head", "head", "head", "db"}).Draw(t, "compact")
	rng := c.Cfg.Range
	t0 := rapid.SampledFrom([]int64{0, 1, rng - 1, rng * 7, 1_700_000_000_000 - 1_700_000_000_000%rng}).Draw(t, "t0")
	step := func(t *rapid.T) int64 {
		switch rapid.IntRange(0, 6).Draw(t, "tstepclass") {
		case 0:
			return 1
		case 1:
			return rng / 3
		case 2:
			return rng
		case 3:
			return int64(rapid.IntRange(1, int(rng)).Draw(t, "tstepany"))
		default:
			return rng / 16
		}
	}
	c.S = genHistSeq(t, hsOpts{MaxLen: 80}, t0, step)
	return c
}

func runC11Head(c c11HeadCase, r *ev.Rec) error {
	if len(c.S) == 0 || !hsValid(c.S) || c.Cfg.Range <= 0 {
		r.Discard()
		return nil
	}
	hsClasses(c.S, r)
	want := make([]sem, len(c.S))
	idx := make([]int, len(c.S))
	for i, s := range c.S {
		want[i] = s.sem()
		idx[i] = i
	}
	// Non-trivial classification: what the same sequence does to plain chunk appenders.
	plain := make([]hsSample, len(c.S))
	copy(plain, c.S)
	for i := range plain {
		plain[i].Cut, plain[i].AO = false, false
	}
	if sim, err := hsBuildDirect(plain, c.Cfg.HistST); err == nil {
		if sim.recodes > 0 {
			r.Class("case:recode-forward")
		}
		if sim.backward > 0 {
			r.Class("case:recode-backward")
		}
		if sim.incompat > 0 {
			r.Class("case:new-chunk")
		}
		if sim.recodes+sim.backward+sim.incompat > 0 {
			r.NonTrivial()
		}
	}
	dir, cleanup, err := hsTmpDir("c11")
	if err != nil {
		return err
	}
	defer cleanup()
	db, err := hsOpenDB(dir, c.Cfg)
	if err != nil {
		return ev.Failf("tsdb.Open: %v", err)
	}
	closed := false
	defer func() {
		if !closed {
			db.Close()
		}
	}()
	ints := make([]*histogram.Histogram, len(c.S))
	floats := make([]*histogram.FloatHistogram, len(c.S))
	if err := hsAppendDB(db, c.Cfg, c.S, idx, ints, floats); err != nil {
		return err
	}
	mint, maxt := c.S[0].T, c.S[len(c.S)-1].T
	check := func(stage string) error {
		q, err := db.Querier(math.MinInt64, math.MaxInt64)
		if err != nil {
			return ev.Failf("%s: Querier: %v", stage, err)
		}
		obs, err := hsQuery(q)
		if err != nil {
			return ev.Failf("%s: %v", stage, err)
		}
		if err := hsCompareObs(stage+" querier", c.S, want, idx, obs, false, false); err != nil {
			return err
		}
		cq, err := db.ChunkQuerier(math.MinInt64, math.MaxInt64)
		if err != nil {
			return ev.Failf("%s: ChunkQuerier: %v", stage, err)
		}
		chks, err := hsQueryChunks(cq)
		if err != nil {
			return ev.Failf("%s: %v", stage, err)
		}
		var flat []hsObs
		for _, o := range chks {
			flat = append(flat, o...)
		}
		r.Count("chunks@"+stage, len(chks))
		return hsCompareObs(stage+" chunk querier", c.S, want, idx, flat, false, false)
	}
	if err := check("head"); err != nil {
		return err
	}
	db.ForceHeadMMap()
	if err := check("mmap"); err != nil {
		return err
	}
	if err := hsInputsUnchanged(c.S, want, ints, floats); err != nil {
		return err
	}
	if err := db.Close(); err != nil {
		closed = true
		return ev.Failf("Close: %v", err)
	}
	closed = true
	db, err = hsOpenDB(dir, c.Cfg)
	if err != nil {
		return ev.Failf("reopen: %v", err)
	}
	closed = false
	if err := check("restart"); err != nil {
		return err
	}
	if c.Compact == "db" && (maxt-mint)/c.Cfg.Range > 6 {
		c.Compact = "head" // every block written costs ~100 ms of buffer allocation; keep the count small
	}
	r.Class("compact:" + c.Compact)
	switch c.Compact {
	case "db":
		if err := db.Compact(context.Background()); err != nil {
			return ev.Failf("DB.Compact: %v", err)
		}
	default:
		if err := db.CompactHead(tsdb.NewRangeHead(db.Head(), mint, maxt)); err != nil {
			return ev.Failf("CompactHead: %v", err)
		}
	}
	r.Count("blocks", len(db.Blocks()))
	if len(db.Blocks()) > 0 {
		r.Class("compacted-to-blocks")
	}
	if err := check("compacted"); err != nil {
		return err
	}
	// blocks alone
	var fromBlocks []hsObs
	for _, b := range db.Blocks() {
		q, err := tsdb.NewBlockQuerier(b, math.MinInt64, math.MaxInt64)
		if err != nil {
			return ev.Failf("NewBlockQuerier: %v", err)
		}
		obs, err := hsQuery(q)
		if err != nil {
			return ev.Failf("block %s: %v", b.Meta().ULID, err)
		}
		fromBlocks = append(fromBlocks, obs...)
	}
	if c.Compact == "head" {
		if err := hsCompareObs("block querier", c.S, want, idx, fromBlocks, false, false); err != nil {
			return err
		}
	} else if len(fromBlocks) > 0 {
		// DB.Compact leaves the newest part in the head: the blocks hold a prefix.
		if len(fromBlocks) > len(idx) {
			return ev.Failf("blocks hold %d samples, only %d were appended", len(fromBlocks), len(idx))
		}
		if err := hsCompareObs("block querier (prefix)", c.S, want, idx[:len(fromBlocks)], fromBlocks, false, false); err != nil {
			return err
		}
	}
	return nil
}

func TestC11Head(t *testing.T) {
	ev.Check(t, "C11",
		"the same evolving histogram sequences (1-80 samples, timestamps stepping through small head chunk ranges) appended to one series of a real TSDB (appender v1/v2, batch sizes, plain/ST histogram encodings, ST storage on/off), read through Querier and ChunkQuerier from the head, after ForceHeadMMap, after close+reopen (WAL replay) and after compaction (CompactHead or DB.Compact), plus the blocks alone; same semantic comparison; inputs compared with their pre-append meaning. Non-trivial: the sequence forces a recode or an appender-requested chunk cut (classified by running it through plain chunk appenders); distinct by case hash.",
		genC11Head, runC11Head, ev.Opts{Part: "head"})
}
