package chunkenc

import (
	"fmt"
	"math"
	"sort"
	"testing"

	"github.com/prometheus/prometheus/tsdb/chunkenc"
	"pgregory.net/rapid"

	"verifharness/internal/ev"
	"verifharness/internal/gen"
)

// C10 — float chunks (XOR, XOR2) return exactly what was appended, incl. appender
// resume and Seek.
//
// A case is a compact program: sample i is derived from Steps[i % len(Steps)] applied
// to the running (t, delta, v, st) state, so that long chunks (up to capacity) need few
// draws and a failing case stays small on disk.

const (
	c10MaxT = int64(1) << 62
	c10MinT = -(int64(1) << 62)
)

// value ops
const (
	c10VSet   = 0 // v = bits V
	c10VSame  = 1 // v = previous v
	c10VXor   = 2 // v = previous v XOR V
	c10VStale = 3 // v = StaleNaN
)

// st ops (XOR2 only; XOR ignores st and must return 0)
const (
	c10STZero  = 0 // st = 0 ("no start timestamp")
	c10STSame  = 1 // st = previous st
	c10STAbs   = 2 // st = ST
	c10STPrevT = 3 // st = previous t + ST
	c10STCurT  = 4 // st = t - ST
)

type c10Step struct {
	Dod  int64  // change of the timestamp delta (sample 1: the delta itself)
	VOp  uint8  `json:",omitempty"`
	V    uint64 `json:",omitempty"`
	STOp uint8  `json:",omitempty"`
	ST   int64  `json:",omitempty"`
}

type c10Resume struct {
	At   int    // the appender is re-opened before appending sample At (1 <= At < N)
	Mode string // same | bytes | pool | compact
}

type c10Op struct {
	Seek bool  `json:",omitempty"`
	X    int64 `json:",omitempty"`
}

type c10Case struct {
	Enc    string // xor | xor2
	N      int
	T0     int64
	Steps  []c10Step
	STFrom int   `json:",omitempty"` // samples with index < STFrom get st = STBase
	STBase int64 `json:",omitempty"`
	Resume []c10Resume `json:",omitempty"`
	Prog   []c10Op     `json:",omitempty"`
}

type c10Sample struct {
	ST, T int64
	V     uint64
}

func c10Enc(s string) chunkenc.Encoding {
	if s == "xor2" {
		return chunkenc.EncXOR2
	}
	return chunkenc.EncXOR
}

// expand derives the appended samples. Timestamps are kept strictly increasing inside
// [-2^62, 2^62]: a step that would violate that is replaced by a small positive delta;
// the sequence is cut when no room is left.
func (c c10Case) expand() []c10Sample {
	if c.N <= 0 || len(c.Steps) == 0 {
		return nil
	}
	out := make([]c10Sample, 0, c.N)
	t := c.T0
	if t > c10MaxT {
		t = c10MaxT
	}
	if t < c10MinT {
		t = c10MinT
	}
	var delta uint64 // t fits in ±2^62 so a delta is at most 2^63
	var v uint64
	var st int64
	for i := 0; i < c.N; i++ {
		s := c.Steps[i%len(c.Steps)]
		prevT := t
		if i > 0 {
			room := uint64(c10MaxT - t) // >= 0
			if room == 0 {
				break
			}
			nd := delta + uint64(s.Dod) // modular
			// legal when 1 <= nd <= room (nd interpreted as unsigned)
			if nd == 0 || nd > room {
				m := s.Dod % 1000
				if m < 0 {
					m = -m
				}
				nd = uint64(m) + 1
				if nd > room {
					nd = 1
				}
			}
			delta = nd
			t = int64(uint64(t) + delta)
		}
		switch s.VOp {
		case c10VSet:
			v = s.V
		case c10VSame:
		case c10VXor:
			v ^= s.V
		case c10VStale:
			v = gen.StaleNaNBits
		}
		if i < c.STFrom {
			st = c.STBase
		} else {
			switch s.STOp {
			case c10STZero:
				st = 0
			case c10STSame:
			case c10STAbs:
				st = s.ST
			case c10STPrevT:
				st = prevT + s.ST
			case c10STCurT:
				st = t - s.ST
			}
		}
		out = append(out, c10Sample{ST: st, T: t, V: v})
	}
	return out
}

// edge values of the delta-of-delta / ST-delta bit buckets of xor.go, xor2.go, varbit.go
var c10Edges = func() []int64 {
	var e []int64
	for _, p := range []uint{1, 2, 5, 6, 8, 9, 11, 12, 13, 14, 16, 17, 19, 20, 24, 25, 31, 32, 55, 56, 62} {
		for k := int64(-2); k <= 2; k++ {
			x := int64(1)<<p + k
			e = append(e, x, -x)
		}
	}
	sort.Slice(e, func(i, j int) bool { return e[i] < e[j] })
	return e
}()

func c10GenDod(t *rapid.T, label string) int64 {
	switch rapid.IntRange(0, 11).Draw(t, label+"class") {
	case 0, 1, 2, 3:
		return 0
	case 4, 5, 6:
		return rapid.SampledFrom(c10Edges).Draw(t, label+"edge")
	case 7, 8:
		return int64(rapid.IntRange(-100, 100).Draw(t, label+"small"))
	case 9:
		return int64(rapid.IntRange(-(1 << 20), 1<<20).Draw(t, label+"mid"))
	case 10:
		return rapid.Int64Range(-(1 << 40), 1<<40).Draw(t, label+"big")
	default:
		return rapid.Int64().Draw(t, label+"any")
	}
}

func c10GenStep(t *rapid.T, stPattern int) c10Step {
	s := c10Step{Dod: c10GenDod(t, "dod")}
	switch rapid.IntRange(0, 13).Draw(t, "vclass") {
	case 0, 1, 2, 3:
		s.VOp = c10VSame
	case 4, 5, 6:
		s.VOp = c10VXor
		s.V = rapid.Uint64Range(1, 0xffff).Draw(t, "vmask") << rapid.UintRange(0, 48).Draw(t, "vshift")
	case 7:
		s.VOp = c10VStale
	case 8:
		s.VOp = c10VXor
		s.V = rapid.Uint64().Draw(t, "vxorany")
	default:
		s.VOp = c10VSet
		s.V = gen.FloatBits().Draw(t, "v")
	}
	switch stPattern {
	case 0: // none
	case 1: // constant
		s.STOp = c10STSame
	case 2: // tracks the previous timestamp with jitter
		s.STOp = c10STPrevT
		s.ST = c10GenJitter(t)
	case 3: // fixed interval before the sample with jitter
		s.STOp = c10STCurT
		s.ST = 15000 + c10GenJitter(t)
	case 4: // arbitrary
		switch rapid.IntRange(0, 3).Draw(t, "stany") {
		case 0:
			s.STOp = c10STAbs
			s.ST = rapid.Int64Range(c10MinT, c10MaxT).Draw(t, "stabs")
		case 1:
			s.STOp = c10STAbs
			s.ST = rapid.Int64().Draw(t, "stint64")
		case 2:
			s.STOp = c10STCurT
			s.ST = rapid.SampledFrom(c10Edges).Draw(t, "stedge")
		default:
			s.STOp = c10STZero
		}
	default: // mixed
		switch rapid.IntRange(0, 5).Draw(t, "stmix") {
		case 0:
			s.STOp = c10STZero
		case 1, 2:
			s.STOp = c10STSame
		case 3:
			s.STOp = c10STPrevT
			s.ST = c10GenJitter(t)
		case 4:
			s.STOp = c10STCurT
			s.ST = rapid.SampledFrom(c10Edges).Draw(t, "stedge")
		default:
			s.STOp = c10STAbs
			s.ST = rapid.Int64Range(-100000, 100000).Draw(t, "stsmall")
		}
	}
	return s
}

func c10GenJitter(t *rapid.T) int64 {
	switch rapid.IntRange(0, 4).Draw(t, "jclass") {
	case 0:
		return 0
	case 1:
		return int64(rapid.IntRange(-4, 5).Draw(t, "j3"))
	case 2:
		return int64(rapid.IntRange(-33, 34).Draw(t, "j6"))
	case 3:
		return int64(rapid.IntRange(-260, 260).Draw(t, "j9"))
	default:
		return rapid.SampledFrom(c10Edges).Draw(t, "jedge")
	}
}

var c10T0s = []int64{0, 1, -1, 1_700_000_000_000, -1_700_000_000_000, 1 << 40, -(1 << 40), c10MinT, c10MinT + 1, c10MaxT - 100000, c10MaxT - 1, 63, 64, -64, -65, 8191, 8192}

// genC10For builds the generator; xorBytes selects the variant that only produces XOR
// chunks whose appender is re-opened from the serialized bytes.
func genC10For(xorBytes bool) func(t *rapid.T) c10Case {
	return func(t *rapid.T) c10Case {
		c := c10Case{Enc: rapid.SampledFrom([]string{"xor", "xor2", "xor2"}).Draw(t, "enc")}
		if xorBytes {
			c.Enc = "xor"
		}
		switch rapid.IntRange(0, 19).Draw(t, "nclass") {
		case 0:
			c.N = rapid.IntRange(1, 3).Draw(t, "n")
		case 1, 2:
			c.N = rapid.IntRange(120, 140).Draw(t, "n127")
		case 3:
			c.N = rapid.IntRange(100, 400).Draw(t, "nmid")
		case 4:
			if rapid.IntRange(0, 9).Draw(t, "nbigsel") == 0 {
				c.N = rapid.IntRange(1000, 3000).Draw(t, "nbig")
				if ev.Thorough() && rapid.IntRange(0, 19).Draw(t, "ncapsel") == 0 {
					c.N = rapid.IntRange(65000, math.MaxUint16).Draw(t, "ncap")
					if rapid.Bool().Draw(t, "ncapexact") {
						c.N = math.MaxUint16
					}
				}
			} else {
				c.N = rapid.IntRange(3, 40).Draw(t, "n")
			}
		default:
			c.N = rapid.IntRange(3, 40).Draw(t, "n")
		}
		if rapid.IntRange(0, 2).Draw(t, "t0class") == 0 {
			c.T0 = rapid.Int64Range(c10MinT, c10MaxT).Draw(t, "t0any")
		} else {
			c.T0 = rapid.SampledFrom(c10T0s).Draw(t, "t0")
		}
		stPattern := rapid.IntRange(0, 5).Draw(t, "stpattern")
		k := c.N
		if k > 48 {
			k = rapid.IntRange(1, 48).Draw(t, "period")
		}
		for i := 0; i < k; i++ {
			s := c10GenStep(t, stPattern)
			if i == 1 && rapid.IntRange(0, 3).Draw(t, "d1class") > 0 {
				// first delta: typical scrape intervals or large enough to leave room for negative dods
				s.Dod = rapid.SampledFrom([]int64{1, 2, 1000, 15000, 60000, 1 << 21, 1 << 32, 1 << 56}).Draw(t, "d1")
			}
			c.Steps = append(c.Steps, s)
		}
		if stPattern != 0 && rapid.IntRange(0, 1).Draw(t, "late") == 1 {
			// late start: the first STFrom samples carry no (or a constant) start timestamp
			cls := rapid.IntRange(0, 3).Draw(t, "stfromclass")
			if c.N > 130 && cls >= 2 {
				cls = 1 // long enough to cross the 7-bit firstSTChangeOn limit: boost that edge
			}
			switch cls {
			case 0:
				c.STFrom = rapid.IntRange(1, 3).Draw(t, "stfrom")
			case 1:
				c.STFrom = rapid.IntRange(125, 130).Draw(t, "stfrom127")
			default:
				c.STFrom = rapid.IntRange(0, c.N).Draw(t, "stfromany")
			}
			if rapid.Bool().Draw(t, "stbaseconst") {
				c.STBase = rapid.SampledFrom([]int64{1, -1, 1_699_999_000_000, c10MinT, 1 << 50}).Draw(t, "stbase")
			}
		}
		samples := c.expand()
		n := len(samples)
		// resume points
		nres := 0
		if n >= 2 {
			nres = rapid.SampledFrom([]int{0, 0, 1, 1, 2, 4}).Draw(t, "nresume")
			if xorBytes && nres == 0 {
				nres = 1
			}
		}
		seen := map[int]bool{}
		for i := 0; i < nres; i++ {
			var at int
			switch rapid.IntRange(0, 4).Draw(t, "atclass") {
			case 0:
				at = 1
			case 1:
				at = 2
			case 2:
				at = n - 1
			case 3:
				at = rapid.IntRange(126, 130).Draw(t, "at127")
			default:
				at = rapid.IntRange(1, n-1).Draw(t, "at")
			}
			if at < 1 || at > n-1 || seen[at] {
				continue
			}
			seen[at] = true
			modes := []string{"same", "bytes", "pool", "compact"}
			if xorBytes {
				modes = []string{"bytes", "pool"}
			} else if c.Enc == "xor" {
				// an XOR appender re-opened from serialized bytes is covered by the xorbytes part
				modes = []string{"same", "compact"}
			}
			c.Resume = append(c.Resume, c10Resume{At: at, Mode: rapid.SampledFrom(modes).Draw(t, "mode")})
		}
		sort.Slice(c.Resume, func(i, j int) bool { return c.Resume[i].At < c.Resume[j].At })
		// Next/Seek program
		nops := rapid.SampledFrom([]int{0, 0, 1, 2, 4, 8, 12}).Draw(t, "nops")
		for i := 0; i < nops && n > 0; i++ {
			if rapid.IntRange(0, 2).Draw(t, "opnext") == 0 {
				c.Prog = append(c.Prog, c10Op{})
				continue
			}
			var x int64
			idx := rapid.IntRange(0, n-1).Draw(t, "seekidx")
			switch rapid.IntRange(0, 6).Draw(t, "seekclass") {
			case 0, 1:
				x = samples[idx].T
			case 2:
				x = samples[idx].T - 1
			case 3:
				x = samples[idx].T + 1
			case 4:
				x = rapid.SampledFrom([]int64{math.MinInt64, c10MinT, samples[0].T - 1, samples[0].T}).Draw(t, "seeklow")
			case 5:
				x = rapid.SampledFrom([]int64{samples[n-1].T, samples[n-1].T + 1, math.MaxInt64}).Draw(t, "seekhigh")
			default:
				x = rapid.Int64Range(samples[0].T, samples[n-1].T).Draw(t, "seekany")
			}
			c.Prog = append(c.Prog, c10Op{Seek: true, X: x})
		}
		return c
	}
}

var c10Pool = chunkenc.NewPool()

func c10DodClass(enc string, dod int64) string {
	if dod == 0 {
		return "dod:0"
	}
	if enc == "xor" {
		switch {
		case dod >= -8191 && dod <= 8192:
			return "dod:xor14"
		case dod >= -65535 && dod <= 65536:
			return "dod:xor17"
		case dod >= -524287 && dod <= 524288:
			return "dod:xor20"
		}
		return "dod:xor64"
	}
	switch {
	case dod >= -4096 && dod <= 4095:
		return "dod:xor2-13"
	case dod >= -524288 && dod <= 524287:
		return "dod:xor2-20"
	}
	return "dod:xor2-64"
}

// c10Build appends the samples following the resume schedule and returns the chunk.
// forceSame replaces every bytes/pool resume by a same-object resume.
func c10Build(c c10Case, samples []c10Sample, forceSame bool, r *ev.Rec) (chunkenc.Chunk, int, error) {
	enc := c10Enc(c.Enc)
	chk, err := chunkenc.NewEmptyChunk(enc)
	if err != nil {
		return nil, 0, ev.Failf("NewEmptyChunk(%v): %v", enc, err)
	}
	app, err := chk.Appender()
	if err != nil {
		return nil, 0, ev.Failf("Appender on empty chunk: %v", err)
	}
	ri := 0
	for i, s := range samples {
		for ri < len(c.Resume) && c.Resume[ri].At < i {
			ri++
		}
		if ri < len(c.Resume) && c.Resume[ri].At == i {
			mode := c.Resume[ri].Mode
			if forceSame && (mode == "bytes" || mode == "pool") {
				mode = "same"
			}
			if r != nil {
				r.Class("resume:" + mode)
			}
			switch mode {
			case "same":
				app, err = chk.Appender()
			case "compact":
				chk.Compact()
			case "bytes":
				b := append([]byte(nil), chk.Bytes()...)
				chk, err = chunkenc.FromData(enc, b)
				if err == nil {
					app, err = chk.Appender()
				}
			case "pool":
				b := append([]byte(nil), chk.Bytes()...)
				if perr := c10Pool.Put(chk); perr != nil {
					return nil, i, ev.Failf("Pool.Put: %v", perr)
				}
				chk, err = c10Pool.Get(enc, b)
				if err == nil {
					app, err = chk.Appender()
				}
			}
			if err != nil {
				return nil, i, ev.Failf("%s: re-opening the appender (%s) before sample %d of %d: %v", c.Enc, mode, i, len(samples), err)
			}
			ri++
		}
		app.Append(s.ST, s.T, gen.F(s.V))
	}
	return chk, -1, nil
}

func c10Want(c c10Case, s c10Sample) c10Sample {
	if c.Enc == "xor" {
		s.ST = 0 // XOR has no start timestamp
	}
	return s
}

// c10Full iterates it to the end and compares with the samples; returns the first bad index.
func c10Full(c c10Case, samples []c10Sample, it chunkenc.Iterator, how string) (int, error) {
	for i, s := range samples {
		w := c10Want(c, s)
		vt := it.Next()
		if vt != chunkenc.ValFloat {
			return i, ev.Failf("%s %s: Next at sample %d/%d returned %v (err %v), want float", c.Enc, how, i, len(samples), vt, it.Err())
		}
		tt, v := it.At()
		if tt != w.T || it.AtT() != w.T || gen.B(v) != w.V || it.AtST() != w.ST {
			return i, ev.Failf("%s %s: sample %d/%d: appended (st=%d t=%d v=%#x) read (st=%d t=%d/%d v=%#x)", c.Enc, how, i, len(samples), w.ST, w.T, w.V, it.AtST(), tt, it.AtT(), gen.B(v))
		}
	}
	if vt := it.Next(); vt != chunkenc.ValNone {
		return len(samples), ev.Failf("%s %s: Next after the last of %d samples returned %v", c.Enc, how, len(samples), vt)
	}
	if vt := it.Next(); vt != chunkenc.ValNone {
		return len(samples), ev.Failf("%s %s: second Next after exhaustion returned %v", c.Enc, how, vt)
	}
	if err := it.Err(); err != nil {
		return len(samples), ev.Failf("%s %s: Err()=%v after full iteration", c.Enc, how, err)
	}
	return -1, nil
}

func c10Verify(c c10Case, samples []c10Sample, chk chunkenc.Chunk) (int, error) {
	enc := c10Enc(c.Enc)
	if chk.Encoding() != enc {
		return 0, ev.Failf("chunk encoding %v, want %v", chk.Encoding(), enc)
	}
	if n := chk.NumSamples(); n != len(samples) {
		return 0, ev.Failf("%s: NumSamples=%d after appending %d samples", c.Enc, n, len(samples))
	}
	it := chk.Iterator(nil)
	if bad, err := c10Full(c, samples, it, "fresh iterator"); err != nil {
		return bad, err
	}
	// re-used iterator object (Reset path)
	it = chk.Iterator(it)
	if bad, err := c10Full(c, samples, it, "re-used iterator"); err != nil {
		return bad, err
	}
	// from the serialized bytes, through FromData and through the pool; handing over an
	// iterator of the other encoding must not confuse anything.
	b := append([]byte(nil), chk.Bytes()...)
	c2, err := chunkenc.FromData(enc, b)
	if err != nil {
		return 0, ev.Failf("FromData: %v", err)
	}
	other, _ := chunkenc.NewEmptyChunk(chunkenc.EncXOR + chunkenc.EncXOR2 - enc)
	if bad, err := c10Full(c, samples, c2.Iterator(other.Iterator(nil)), "FromData iterator"); err != nil {
		return bad, err
	}
	c3, err := c10Pool.Get(enc, b)
	if err != nil {
		return 0, ev.Failf("Pool.Get: %v", err)
	}
	if c3.NumSamples() != len(samples) {
		return 0, ev.Failf("%s: pooled chunk NumSamples=%d want %d", c.Enc, c3.NumSamples(), len(samples))
	}
	bad, ferr := c10Full(c, samples, c3.Iterator(it), "pooled chunk iterator")
	_ = c10Pool.Put(c3)
	if ferr != nil {
		return bad, ferr
	}
	return -1, nil
}

// c10Program runs the Next/Seek program against a reference cursor over the samples.
func c10Program(c c10Case, samples []c10Sample, chk chunkenc.Chunk, r *ev.Rec) error {
	if len(c.Prog) == 0 {
		return nil
	}
	it := chk.Iterator(nil)
	pos := -1
	trace := ""
	check := func(op string, vt chunkenc.ValueType, wantPos int) error {
		trace += op + ";"
		if wantPos < 0 {
			if vt != chunkenc.ValNone {
				return ev.Failf("%s program [%s]: returned %v, reference cursor is exhausted (%d samples)", c.Enc, trace, vt, len(samples))
			}
			return nil
		}
		w := c10Want(c, samples[wantPos])
		if vt != chunkenc.ValFloat {
			return ev.Failf("%s program [%s]: returned %v (err %v), reference is at sample %d (t=%d)", c.Enc, trace, vt, it.Err(), wantPos, w.T)
		}
		tt, v := it.At()
		if tt != w.T || it.AtT() != w.T || gen.B(v) != w.V || it.AtST() != w.ST {
			return ev.Failf("%s program [%s]: iterator at (st=%d t=%d v=%#x), reference at sample %d (st=%d t=%d v=%#x)", c.Enc, trace, it.AtST(), tt, gen.B(v), wantPos, w.ST, w.T, w.V)
		}
		return nil
	}
	for _, op := range c.Prog {
		if !op.Seek {
			if pos+1 >= len(samples) {
				if err := check("Next", it.Next(), -1); err != nil {
					return err
				}
				break // behaviour after exhaustion is not specified further
			}
			pos++
			if err := check("Next", it.Next(), pos); err != nil {
				return err
			}
			continue
		}
		r.Class("seek")
		name := fmt.Sprintf("Seek(%d)", op.X)
		if pos >= 0 && samples[pos].T >= op.X {
			r.Class("seek:noop")
			if err := check(name, it.Seek(op.X), pos); err != nil {
				return err
			}
			continue
		}
		np := pos + 1
		for np < len(samples) && samples[np].T < op.X {
			np++
		}
		if np >= len(samples) {
			r.Class("seek:exhaust")
			if err := check(name, it.Seek(op.X), -1); err != nil {
				return err
			}
			break
		}
		if np > pos+1 {
			r.Class("seek:skip")
		}
		pos = np
		if err := check(name, it.Seek(op.X), pos); err != nil {
			return err
		}
	}
	return nil
}

func runC10(c c10Case, r *ev.Rec) error {
	samples := c.expand()
	if len(samples) == 0 || len(samples) > math.MaxUint16 {
		r.Discard()
		return nil
	}
	r.Class("enc:" + c.Enc)
	switch n := len(samples); {
	case n < 3:
		r.Class("len:<3")
	case n <= 40:
		r.Class("len:3-40")
	case n <= 400:
		r.Class("len:41-400")
	case n < 60000:
		r.Class("len:401+")
	default:
		r.Class("len:capacity")
	}
	nonZeroDod, stChanges, stale := 0, 0, 0
	dodSeen := map[string]bool{}
	for i, s := range samples {
		if i >= 2 {
			dod := int64(uint64(s.T-samples[i-1].T) - uint64(samples[i-1].T-samples[i-2].T))
			if dod != 0 {
				nonZeroDod++
			}
			dodSeen[c10DodClass(c.Enc, dod)] = true
		}
		if i > 0 && s.ST != samples[i-1].ST {
			stChanges++
			if stChanges == 1 && c.Enc == "xor2" {
				switch {
				case i == 1:
					r.Class("st:first-change@1")
				case i < 127:
					r.Class("st:first-change@2-126")
				default:
					r.Class("st:first-change@>=127")
				}
			}
		}
		if s.V == gen.StaleNaNBits {
			stale++
		}
	}
	for k := range dodSeen {
		r.Class(k)
	}
	if c.Enc == "xor2" {
		switch {
		case stChanges > 0:
			r.Class("st:changing")
		case samples[0].ST != 0:
			r.Class("st:constant")
		default:
			r.Class("st:none")
		}
		if len(samples) > 128 && stChanges == 0 {
			r.Class("st:forced-marker@127")
		}
	}
	if stale > 0 {
		r.Class("stale")
	}
	fromBytes := -1
	for _, rs := range c.Resume {
		if (rs.Mode == "bytes" || rs.Mode == "pool") && rs.At < len(samples) && fromBytes < 0 {
			fromBytes = rs.At
		}
	}
	resumed := false
	for _, rs := range c.Resume {
		if rs.At < len(samples) {
			resumed = true
		}
	}
	if len(samples) >= 3 && (nonZeroDod > 0 || resumed || func() bool {
		for _, op := range c.Prog {
			if op.Seek {
				return true
			}
		}
		return false
	}()) {
		r.NonTrivial()
	}

	chk, bad, verr := c10Build(c, samples, false, r)
	if verr == nil {
		bad, verr = c10Verify(c, samples, chk)
		if verr == nil {
			verr = c10Program(c, samples, chk, r)
			bad = -1
		}
	}
	if verr == nil {
		return nil
	}
	// Root-cause isolation for one specific failure: an XOR chunk whose appender was
	// re-opened from serialized bytes (FromData / Pool.Get reset the bit position of the
	// last byte). It is tagged only when the data before the resume point is intact and the
	// identical case with same-object resumes passes.
	// (bad is the first wrong sample, or the later resume point at which re-reading the
	// already damaged stream failed.)
	if c.Enc == "xor" && fromBytes >= 0 && bad >= fromBytes {
		if chk2, _, err2 := c10Build(c, samples, true, nil); err2 == nil {
			if _, v2 := c10Verify(c, samples, chk2); v2 == nil {
				return ev.FailSig("xor-appender-from-bytes-loses-bit-position",
					"XOR chunk: appender re-opened from the chunk's bytes before sample %d, samples appended afterwards are read back wrong (same case with Appender() on the live chunk object passes): %v", fromBytes, verr)
			}
		}
	}
	return verr
}

const c10Rule = "compact sample program (timestamp delta-of-deltas from the encodings' bucket edges, float bit patterns incl. stale/NaN payloads/shared windows, ST patterns none/constant/late/jitter/arbitrary) for XOR or XOR2, appender re-opened at drawn positions (same object / FromData bytes / Pool / after Compact), then full iteration (fresh, re-used, FromData, pooled iterators) and a Next/Seek program against a reference cursor. Non-trivial: >=3 samples and (a non-zero delta-of-delta, or a resume, or a Seek); distinct by hash of the case."

func TestC10(t *testing.T) {
	ev.Check(t, "C10", c10Rule, genC10For(false), runC10, ev.Opts{Part: "rt"})
}

// TestC10XORBytes: XOR chunks whose appender is re-opened from the serialized bytes.
func TestC10XORBytes(t *testing.T) {
	ev.Check(t, "C10", "as rt, restricted to XOR chunks with at least one appender re-opened from FromData/Pool.Get bytes. Non-trivial: as rt.", genC10For(true), runC10, ev.Opts{Part: "xorbytes"})
}

// TestC10Enum enumerates every delta-of-delta around each bucket edge for 3-sample chunks.
func TestC10Enum(t *testing.T) {
	radius := int64(300)
	if ev.Thorough() {
		radius = 1 << 13
	}
	var centers []int64
	for _, p := range []uint{0, 12, 13, 16, 17, 19, 20} {
		if p == 0 {
			centers = append(centers, 0)
			continue
		}
		centers = append(centers, int64(1)<<p, -(int64(1) << p))
	}
	encs := []string{"xor", "xor2"}
	variants := 4
	ei, ci, vi := 0, 0, 0
	off := -radius
	next := func() (c10Case, bool) {
		if ei >= len(encs) {
			return c10Case{}, false
		}
		dod := centers[ci] + off
		c := c10Case{Enc: encs[ei], N: 3, T0: 1000, Steps: []c10Step{
			{VOp: c10VSet, V: gen.B(1)},
			{Dod: 1 << 22, VOp: c10VSame},
			{Dod: dod, VOp: c10VSame},
		}}
		switch vi {
		case 1: // value changes on the last sample (other control prefix / bit alignment)
			c.Steps[2].VOp, c.Steps[2].V = c10VXor, 0x0000000100000000
		case 2: // bit alignment shifted by a changed second value, ST present
			c.Steps[1].VOp, c.Steps[1].V = c10VXor, 0x0008000000000000
			c.Steps[0].STOp, c.Steps[0].ST = c10STAbs, 900
			c.Steps[1].STOp = c10STSame
			c.Steps[2].STOp, c.Steps[2].ST = c10STPrevT, 1
		case 3: // stale on the last sample
			c.Steps[2].VOp = c10VStale
		}
		// advance
		vi++
		if vi == variants {
			vi = 0
			off++
			if off > radius {
				off = -radius
				ci++
				if ci == len(centers) {
					ci = 0
					ei++
				}
			}
		}
		return c, true
	}
	ev.Enumerate(t, "C10", fmt.Sprintf("every delta-of-delta within %d of each bucket edge (0, ±2^12, ±2^13, ±2^16, ±2^17, ±2^19, ±2^20) for 3-sample XOR and XOR2 chunks in 4 value/ST variants, same oracle as rt. Non-trivial: non-zero delta-of-delta.", radius), next, runC10, ev.Opts{Part: "enum", MaxHashes: 1 << 18})
}
