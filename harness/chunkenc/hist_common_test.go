package chunkenc

import (
	"time"
	"context"
	"fmt"
	"math"
	"os"
	"sort"

	"github.com/prometheus/common/promslog"
	"github.com/prometheus/prometheus/model/histogram"
	"github.com/prometheus/prometheus/model/labels"
	"github.com/prometheus/prometheus/storage"
	"github.com/prometheus/prometheus/tsdb"
	"github.com/prometheus/prometheus/tsdb/chunkenc"
	"pgregory.net/rapid"

	"verifharness/internal/ev"
	"verifharness/internal/gen"
)

// Shared by C11 and C12: generator of evolving native-histogram sequences for one series,
// the direct chunk-appender driver following the AppendHistogram contract, semantic
// comparison helpers and a small real-TSDB wrapper.

// hsSample is one appended sample. Stale samples carry only the flavour (H.Float).
type hsSample struct {
	T     int64
	ST    int64    `json:",omitempty"`
	H     gen.Hist
	Stale bool `json:",omitempty"`
	Cut   bool `json:",omitempty"` // direct path: the caller starts a new chunk before this sample (size/time based cut)
	AO    bool `json:",omitempty"` // direct path: first try appendOnly=true
}

func (s hsSample) isFloat() bool { return s.H.Float }

func (s hsSample) intH() *histogram.Histogram {
	if s.Stale {
		return &histogram.Histogram{Sum: gen.F(gen.StaleNaNBits)}
	}
	return s.H.Int()
}

func (s hsSample) floatH() *histogram.FloatHistogram {
	if s.Stale {
		return &histogram.FloatHistogram{Sum: gen.F(gen.StaleNaNBits)}
	}
	return s.H.FloatH()
}

// sem is the meaning of a histogram sample, independent of span layout and flavour.
type sem struct {
	Stale    bool
	Float    bool
	Gauge    bool
	Hint     histogram.CounterResetHint
	Schema   int32
	ZT       uint64
	ZC       float64
	Count    float64
	Sum      uint64
	CV       []uint64
	Pos, Neg map[int32]float64
}

func cvBits(c []float64) []uint64 {
	out := make([]uint64, len(c))
	for i, x := range c {
		out[i] = gen.B(x)
	}
	return out
}

func semOfInt(h *histogram.Histogram) sem {
	if gen.B(h.Sum) == gen.StaleNaNBits {
		return sem{Stale: true}
	}
	s := sem{Hint: h.CounterResetHint, Gauge: h.CounterResetHint == histogram.GaugeType, Schema: h.Schema, ZT: gen.B(h.ZeroThreshold),
		ZC: float64(h.ZeroCount), Count: float64(h.Count), Sum: gen.B(h.Sum), CV: cvBits(h.CustomValues), Pos: map[int32]float64{}, Neg: map[int32]float64{}}
	for k, v := range gen.IntBucketMap(h.PositiveSpans, h.PositiveBuckets) {
		s.Pos[k] = float64(v)
	}
	for k, v := range gen.IntBucketMap(h.NegativeSpans, h.NegativeBuckets) {
		s.Neg[k] = float64(v)
	}
	return s
}

func semOfFloat(h *histogram.FloatHistogram) sem {
	if gen.B(h.Sum) == gen.StaleNaNBits {
		return sem{Stale: true, Float: true}
	}
	return sem{Float: true, Hint: h.CounterResetHint, Gauge: h.CounterResetHint == histogram.GaugeType, Schema: h.Schema, ZT: gen.B(h.ZeroThreshold),
		ZC: h.ZeroCount, Count: h.Count, Sum: gen.B(h.Sum), CV: cvBits(h.CustomValues),
		Pos: gen.BucketMap(h.PositiveSpans, h.PositiveBuckets), Neg: gen.BucketMap(h.NegativeSpans, h.NegativeBuckets)}
}

func (s hsSample) sem() sem {
	if s.isFloat() {
		x := semOfFloat(s.floatH())
		x.Float = true
		return x
	}
	return semOfInt(s.intH())
}

func mapEq(a, b map[int32]float64) bool {
	if len(a) != len(b) {
		return false
	}
	for k, v := range a {
		if w, ok := b[k]; !ok || gen.B(v) != gen.B(w) {
			return false
		}
	}
	return true
}

// semDiff compares two meanings (hint and flavour excluded); "" when equal.
func semDiff(a, b sem) string {
	switch {
	case a.Stale != b.Stale:
		return "staleness"
	case a.Stale:
		return ""
	case a.Schema != b.Schema:
		return "Schema"
	case a.ZT != b.ZT:
		return "ZeroThreshold"
	case gen.B(a.ZC) != gen.B(b.ZC):
		return "ZeroCount"
	case gen.B(a.Count) != gen.B(b.Count):
		return "Count"
	case a.Sum != b.Sum:
		return "Sum"
	case len(a.CV) != len(b.CV):
		return "CustomValues"
	case !mapEq(a.Pos, b.Pos):
		return "positive buckets"
	case !mapEq(a.Neg, b.Neg):
		return "negative buckets"
	}
	for i := range a.CV {
		if a.CV[i] != b.CV[i] {
			return "CustomValues"
		}
	}
	return ""
}

func (s sem) String() string {
	if s.Stale {
		return "stale"
	}
	keys := func(m map[int32]float64) string {
		ks := make([]int, 0, len(m))
		for k := range m {
			ks = append(ks, int(k))
		}
		sort.Ints(ks)
		o := ""
		for _, k := range ks {
			o += fmt.Sprintf("%d:%g ", k, m[int32(k)])
		}
		return o
	}
	cv := ""
	if s.Schema == histogram.CustomBucketsSchema {
		cv = " cv="
		for _, b := range s.CV {
			cv += fmt.Sprintf("%g,", gen.F(b))
		}
	}
	return fmt.Sprintf("{hint=%d schema=%d zt=%g zc=%g count=%g sum=%g%s pos[%s] neg[%s]}", s.Hint, s.Schema, gen.F(s.ZT), s.ZC, s.Count, gen.F(s.Sum), cv, keys(s.Pos), keys(s.Neg))
}

// ---------------------------------------------------------------- generator

type hsState struct {
	custom   bool
	cv       []uint64
	schema   int32
	zt       uint64
	zc       uint64
	pos, neg map[int32]uint64 // absolute counts; an entry with 0 is an explicitly kept empty bucket
	extra    uint64           // observations counted in Count but in no bucket (only materialised when legal)
	gauge    bool
	float    bool
	scale    float64
	nanSum   bool
}

type hsOpts struct {
	CounterOnly bool // never gauge
	OneFlavour  bool // never switch int<->float
	HeadSafe    bool // histograms must pass Validate (always true today) and ST is left 0 unless STs
	MaxLen      int
}

var hsZTs = []uint64{0, gen.B(math.Ldexp(1, -128)), gen.B(0.001), gen.B(0.5), gen.B(1), gen.B(math.Ldexp(1, -10))}

func sortedKeys(m map[int32]uint64) []int32 {
	ks := make([]int32, 0, len(m))
	for k := range m {
		ks = append(ks, k)
	}
	sort.Slice(ks, func(i, j int) bool { return ks[i] < ks[j] })
	return ks
}

func (s *hsState) fresh(t *rapid.T, o hsOpts) {
	s.custom = rapid.IntRange(0, 4).Draw(t, "custom") == 0
	s.pos, s.neg = map[int32]uint64{}, map[int32]uint64{}
	s.zc, s.extra = 0, 0
	s.nanSum = rapid.IntRange(0, 7).Draw(t, "nansumseries") == 0
	s.cv = nil
	if s.custom {
		s.schema = histogram.CustomBucketsSchema
		s.zt = 0
		s.genBounds(t)
		n := rapid.IntRange(0, 4).Draw(t, "nb")
		for i := 0; i < n; i++ {
			s.pos[int32(rapid.IntRange(0, len(s.cv)).Draw(t, "cidx"))] = uint64(rapid.IntRange(0, 30).Draw(t, "cnt"))
		}
		return
	}
	s.schema = rapid.Int32Range(-4, 8).Draw(t, "schema")
	s.zt = rapid.SampledFrom(hsZTs).Draw(t, "zt")
	if rapid.Bool().Draw(t, "haszc") {
		s.zc = uint64(rapid.IntRange(0, 20).Draw(t, "zc"))
	}
	base := rapid.Int32Range(-10, 10).Draw(t, "base")
	n := rapid.IntRange(0, 5).Draw(t, "nb")
	for i := 0; i < n; i++ {
		s.pos[base+rapid.Int32Range(-3, 6).Draw(t, "pidx")] = uint64(rapid.IntRange(0, 30).Draw(t, "cnt"))
	}
	n = rapid.IntRange(0, 3).Draw(t, "nnb")
	for i := 0; i < n; i++ {
		s.neg[base+rapid.Int32Range(-3, 6).Draw(t, "nidx")] = uint64(rapid.IntRange(0, 30).Draw(t, "cnt"))
	}
}

func (s *hsState) genBounds(t *rapid.T) {
	n := rapid.IntRange(0, 6).Draw(t, "ncv")
	v := float64(rapid.IntRange(-20, 5).Draw(t, "cv0"))
	s.cv = []uint64{}
	for i := 0; i < n; i++ {
		s.cv = append(s.cv, gen.B(v))
		switch rapid.IntRange(0, 3).Draw(t, "cvstepclass") {
		case 0:
			v += float64(rapid.IntRange(1, 40).Draw(t, "cvstep")) / 4
		case 1:
			v += float64(rapid.IntRange(1, 4000).Draw(t, "cvmilli")) / 1000 // exercises the 0.001 encoding and its fallback
		case 2:
			v += 40000
		default:
			v += 1
		}
	}
}

// pickSide returns the map of one side (custom: always positive).
func (s *hsState) pickSide(t *rapid.T) map[int32]uint64 {
	if s.custom || rapid.IntRange(0, 2).Draw(t, "side") > 0 {
		return s.pos
	}
	return s.neg
}

func (s *hsState) legalIdx(i int32) bool {
	if s.custom {
		return i >= 0 && int(i) <= len(s.cv)
	}
	return i > -2000 && i < 2000
}

// evolve applies one drawn change; returns a label for the class counters.
func (s *hsState) evolve(t *rapid.T, o hsOpts) string {
	switch rapid.IntRange(0, 29).Draw(t, "evolve") {
	case 0, 1, 2, 3, 4, 5, 6: // counter-like increase
		for _, m := range []map[int32]uint64{s.pos, s.neg} {
			for _, k := range sortedKeys(m) {
				if rapid.IntRange(0, 2).Draw(t, "incsel") > 0 {
					m[k] += uint64(rapid.IntRange(0, 5).Draw(t, "inc"))
				}
			}
		}
		if !s.custom && rapid.Bool().Draw(t, "inczc") {
			s.zc += uint64(rapid.IntRange(0, 3).Draw(t, "zcinc"))
		}
		return "inc"
	case 7, 8, 9, 10, 11: // new buckets
		m := s.pickSide(t)
		ks := sortedKeys(m)
		n := rapid.IntRange(1, 3).Draw(t, "ngrow")
		for i := 0; i < n; i++ {
			var idx int32
			if len(ks) == 0 {
				idx = rapid.Int32Range(-5, 5).Draw(t, "growidx0")
			} else {
				switch rapid.IntRange(0, 4).Draw(t, "growclass") {
				case 0:
					idx = ks[0] - 1
				case 1:
					idx = ks[0] - int32(rapid.IntRange(2, 9).Draw(t, "growfar"))
				case 2:
					idx = ks[len(ks)-1] + 1
				case 3:
					idx = ks[len(ks)-1] + int32(rapid.IntRange(2, 9).Draw(t, "growfar"))
				default:
					idx = rapid.Int32Range(ks[0], ks[len(ks)-1]).Draw(t, "growin")
				}
			}
			if s.custom && !s.legalIdx(idx) {
				idx = int32(rapid.IntRange(0, len(s.cv)).Draw(t, "growcustom"))
			}
			if !s.legalIdx(idx) {
				continue
			}
			if _, ok := m[idx]; !ok {
				m[idx] = uint64(rapid.IntRange(0, 12).Draw(t, "growcnt"))
			} else {
				m[idx] += uint64(rapid.IntRange(1, 3).Draw(t, "growadd"))
			}
		}
		return "grow"
	case 12, 13: // decrease of one bucket
		m := s.pickSide(t)
		ks := sortedKeys(m)
		if len(ks) == 0 {
			return "same"
		}
		k := ks[rapid.IntRange(0, len(ks)-1).Draw(t, "deck")]
		if m[k] == 0 {
			return "same"
		}
		m[k] -= uint64(rapid.IntRange(1, int(m[k])).Draw(t, "dec"))
		if rapid.Bool().Draw(t, "deccomp") {
			// keep the total from dropping: compensate elsewhere so only the bucket reveals the reset
			k2 := ks[rapid.IntRange(0, len(ks)-1).Draw(t, "deck2")]
			if k2 != k {
				m[k2] += 40
			} else {
				s.extra += 40
			}
		}
		return "dec-bucket"
	case 14: // decrease of the zero bucket
		if s.zc == 0 {
			return "same"
		}
		s.zc -= uint64(rapid.IntRange(1, int(s.zc)).Draw(t, "deczc"))
		if rapid.Bool().Draw(t, "deczccomp") {
			ks := sortedKeys(s.pos)
			if len(ks) > 0 {
				s.pos[ks[0]] += 40
			} else {
				s.extra += 40
			}
		}
		return "dec-zero"
	case 15: // decrease of the count only
		if s.extra == 0 {
			s.extra = uint64(rapid.IntRange(1, 10).Draw(t, "extraup"))
			s.nanSum = true
			return "inc"
		}
		s.extra -= uint64(rapid.IntRange(1, int(s.extra)).Draw(t, "decextra"))
		return "dec-count"
	case 16, 17: // a bucket disappears
		m := s.pickSide(t)
		ks := sortedKeys(m)
		if len(ks) == 0 {
			return "same"
		}
		k := ks[rapid.IntRange(0, len(ks)-1).Draw(t, "dropk")]
		was := m[k]
		delete(m, k)
		if was == 0 {
			return "drop-empty"
		}
		if rapid.Bool().Draw(t, "dropcomp") && len(ks) > 1 {
			for _, k2 := range ks {
				if k2 != k {
					m[k2] += was + 5
					break
				}
			}
		}
		return "drop-bucket"
	case 18: // shift
		d := int32(rapid.SampledFrom([]int{-3, -1, 1, 2, 8}).Draw(t, "shift"))
		for _, pm := range []*map[int32]uint64{&s.pos, &s.neg} {
			nm := map[int32]uint64{}
			for k, v := range *pm {
				if s.legalIdx(k + d) {
					nm[k+d] = v
				}
			}
			*pm = nm
		}
		return "shift"
	case 19: // schema change
		if s.custom {
			return "same"
		}
		ns := rapid.Int32Range(-4, 8).Draw(t, "newschema")
		if ns == s.schema {
			return "same"
		}
		s.schema = ns
		if rapid.Bool().Draw(t, "schemagrow") {
			for _, k := range sortedKeys(s.pos) {
				s.pos[k] += 3
			}
		}
		return "schema"
	case 20: // zero threshold change
		if s.custom {
			return "same"
		}
		nz := rapid.SampledFrom(hsZTs).Draw(t, "newzt")
		if nz == s.zt {
			return "same"
		}
		s.zt = nz
		s.zc += uint64(rapid.IntRange(0, 3).Draw(t, "ztzc"))
		return "zt"
	case 21: // custom bounds change
		if !s.custom {
			return "same"
		}
		old := len(s.cv)
		switch rapid.IntRange(0, 2).Draw(t, "cvchange") {
		case 0:
			s.genBounds(t)
		case 1:
			last := -30.0
			if old > 0 {
				last = gen.F(s.cv[old-1])
			}
			s.cv = append(append([]uint64{}, s.cv...), gen.B(last+float64(rapid.IntRange(1, 9).Draw(t, "cvadd"))))
		default:
			if old > 0 {
				i := rapid.IntRange(0, old-1).Draw(t, "cvalter")
				lo := -1000.0
				if i > 0 {
					lo = gen.F(s.cv[i-1])
				}
				nv := (lo + gen.F(s.cv[i])) / 2
				if nv > lo && nv < gen.F(s.cv[i]) {
					ncv := append([]uint64{}, s.cv...)
					ncv[i] = gen.B(nv)
					s.cv = ncv
				}
			}
		}
		for k := range s.pos {
			if !s.legalIdx(k) {
				delete(s.pos, k)
			}
		}
		return "custom-bounds"
	case 22, 23: // complete restart
		g, f, sc := s.gauge, s.float, s.scale
		s.fresh(t, o)
		s.gauge, s.float, s.scale = g, f, sc
		return "fresh"
	case 24:
		if o.CounterOnly {
			return "same"
		}
		s.gauge = !s.gauge
		return "gauge-toggle"
	case 25:
		if o.OneFlavour || rapid.IntRange(0, 2).Draw(t, "flavoursel") > 0 {
			return "same"
		}
		s.float = !s.float
		return "flavour-toggle"
	case 26:
		return "stale"
	default:
		return "same"
	}
}

// layout lays one side out into spans with a drawn legal structure.
func (s *hsState) layout(t *rapid.T, label string, m map[int32]uint64) ([]gen.Span, []uint64) {
	idxs := []int32{}
	ks := sortedKeys(m)
	for _, k := range ks {
		if m[k] > 0 || rapid.IntRange(0, 3).Draw(t, label+"keepempty") > 0 {
			idxs = append(idxs, k)
		}
	}
	if rapid.IntRange(0, 5).Draw(t, label+"extraempty") == 0 {
		lo, hi := int32(-3), int32(3)
		if len(ks) > 0 {
			lo, hi = ks[0]-3, ks[len(ks)-1]+3
		}
		n := rapid.IntRange(1, 2).Draw(t, label+"nextra")
		for i := 0; i < n; i++ {
			k := rapid.Int32Range(lo, hi).Draw(t, label+"extraidx")
			if _, ok := m[k]; !ok && s.legalIdx(k) {
				dup := false
				for _, x := range idxs {
					if x == k {
						dup = true
					}
				}
				if !dup {
					idxs = append(idxs, k)
				}
			}
		}
		sort.Slice(idxs, func(i, j int) bool { return idxs[i] < idxs[j] })
	}
	if len(idxs) == 0 {
		if !s.custom && rapid.IntRange(0, 14).Draw(t, label+"emptyspan") == 0 {
			return []gen.Span{{Off: rapid.Int32Range(-3, 3).Draw(t, label+"emptyoff"), Len: 0}}, nil
		}
		return nil, nil
	}
	odd := rapid.IntRange(0, 5).Draw(t, label+"oddlayout") == 0 // zero-length spans / zero-offset splits
	var spans []gen.Span
	var counts []uint64
	prevEnd := int32(0) // index after the last bucket laid out
	for i := 0; i < len(idxs); {
		j := i
		for j+1 < len(idxs) && idxs[j+1] == idxs[j]+1 {
			j++
		}
		// run idxs[i..j]
		off := idxs[i] - prevEnd
		if len(spans) == 0 {
			off = idxs[i]
			if odd && rapid.IntRange(0, 2).Draw(t, label+"lead0") == 0 {
				b := int32(rapid.IntRange(0, 3).Draw(t, label+"lead0b"))
				if !s.custom || idxs[i]-b >= 0 {
					spans = append(spans, gen.Span{Off: idxs[i] - b, Len: 0})
					off = b
				}
			}
		} else if odd && off > 0 && rapid.IntRange(0, 2).Draw(t, label+"gap0") == 0 {
			g1 := int32(rapid.IntRange(0, int(off)).Draw(t, label+"gap0a"))
			spans = append(spans, gen.Span{Off: g1, Len: 0})
			off -= g1
		}
		start := i
		for k := i; k <= j; k++ {
			counts = append(counts, m[idxs[k]])
			if odd && k < j && rapid.IntRange(0, 3).Draw(t, label+"split") == 0 {
				spans = append(spans, gen.Span{Off: off, Len: uint32(k - start + 1)})
				off = 0
				start = k + 1
			}
		}
		spans = append(spans, gen.Span{Off: off, Len: uint32(j - start + 1)})
		prevEnd = idxs[j] + 1
		i = j + 1
	}
	return spans, counts
}

func hsDeltas(abs []uint64) []int64 {
	var out []int64
	var prev int64
	for _, c := range abs {
		out = append(out, int64(c)-prev)
		prev = int64(c)
	}
	return out
}

// materialise draws a layout and produces the serialisable histogram.
func (s *hsState) materialise(t *rapid.T) gen.Hist {
	h := gen.Hist{Float: s.float, Schema: s.schema, ZT: s.zt}
	if s.gauge {
		h.Hint = uint8(histogram.GaugeType)
	} else {
		switch rapid.IntRange(0, 19).Draw(t, "hint") {
		case 0:
			h.Hint = uint8(histogram.CounterReset)
		case 1:
			h.Hint = uint8(histogram.NotCounterReset)
		}
	}
	if s.custom {
		h.CV = append([]uint64{}, s.cv...)
	}
	var pc, nc []uint64
	h.PS, pc = s.layout(t, "p", s.pos)
	if !s.custom {
		h.NS, nc = s.layout(t, "n", s.neg)
	}
	total := s.zc
	for _, c := range s.pos {
		total += c
	}
	for _, c := range s.neg {
		total += c
	}
	nan := s.nanSum && rapid.IntRange(0, 3).Draw(t, "nansum") > 0
	if nan {
		h.Sum = gen.NormalNaNBits
	} else {
		switch rapid.IntRange(0, 9).Draw(t, "sumclass") {
		case 0:
			h.Sum = 0
		case 1:
			h.Sum = gen.FiniteFloatBits().Draw(t, "sumany")
		default:
			h.Sum = gen.B(float64(rapid.IntRange(-100000, 100000).Draw(t, "sum")) / 8)
		}
	}
	if !s.float {
		h.ZC = s.zc
		h.Count = total
		if nan {
			h.Count += s.extra
		}
		h.PB, h.NB = hsDeltas(pc), hsDeltas(nc)
		return h
	}
	for _, c := range pc {
		h.PB = append(h.PB, int64(gen.B(float64(c)*s.scale)))
	}
	for _, c := range nc {
		h.NB = append(h.NB, int64(gen.B(float64(c)*s.scale)))
	}
	h.ZC = gen.B(float64(s.zc) * s.scale)
	h.Count = gen.B(float64(total+s.extra) * s.scale)
	return h
}

// genHistSeq draws a sequence; tstep draws the next timestamp increment.
func genHistSeq(t *rapid.T, o hsOpts, t0 int64, tstep func(*rapid.T) int64) []hsSample {
	s := &hsState{scale: 1}
	s.float = rapid.Bool().Draw(t, "float")
	if s.float {
		s.scale = rapid.SampledFrom([]float64{1, 1, 0.5, 0.25, 1.5, 0.1}).Draw(t, "scale")
	}
	if !o.CounterOnly {
		s.gauge = rapid.IntRange(0, 3).Draw(t, "gauge") == 0
	}
	s.fresh(t, o)
	maxLen := o.MaxLen
	if maxLen == 0 {
		maxLen = 200
	}
	n := rapid.IntRange(1, 24).Draw(t, "n")
	if rapid.IntRange(0, 14).Draw(t, "long") == 0 {
		n = rapid.IntRange(25, maxLen).Draw(t, "nlong")
	}
	if n > maxLen {
		n = maxLen
	}
	stPattern := rapid.IntRange(0, 4).Draw(t, "stpattern")
	ts := t0
	var st int64
	out := make([]hsSample, 0, n)
	for i := 0; i < n; i++ {
		prevT := ts
		if i > 0 {
			ts += tstep(t)
		}
		kind := "first"
		if i > 0 {
			kind = s.evolve(t, o)
		}
		smp := hsSample{T: ts}
		switch stPattern {
		case 0:
		case 1:
			if i == 0 {
				st = ts - 1000
			}
		case 2:
			if i > 0 {
				st = prevT + int64(rapid.IntRange(-3, 3).Draw(t, "stjit"))
			}
		case 3:
			switch rapid.IntRange(0, 3).Draw(t, "stmix") {
			case 0:
				st = 0
			case 1:
				st = ts - int64(rapid.IntRange(0, 100000).Draw(t, "stback"))
			}
		default:
			if rapid.IntRange(0, 3).Draw(t, "stchange") == 0 {
				st = rapid.Int64Range(-(1 << 40), 1<<40).Draw(t, "stany")
			}
		}
		smp.ST = st
		if kind == "stale" {
			smp.Stale = true
			smp.H = gen.Hist{Float: s.float}
		} else {
			smp.H = s.materialise(t)
		}
		if i > 0 {
			smp.Cut = rapid.IntRange(0, 11).Draw(t, "cut") == 0
			smp.AO = rapid.IntRange(0, 5).Draw(t, "ao") == 0
		}
		out = append(out, smp)
	}
	return out
}

// ---------------------------------------------------------------- direct chunk path

type hsBuilt struct {
	chunks   []chunkenc.Chunk
	firstIdx []int // index of the first sample of each chunk
	ints     []*histogram.Histogram
	floats   []*histogram.FloatHistogram
	recodes  int // forward-insert recodes (isRecoded)
	backward int // inputs whose layout was rewritten (backward inserts)
	incompat int // new chunk returned by the appender
	cuts     int // caller-side cuts (flavour change or drawn cut)
	aoErr    int
}

func hsEnc(float, st bool) chunkenc.Encoding {
	switch {
	case float && st:
		return chunkenc.EncFloatHistogramST
	case float:
		return chunkenc.EncFloatHistogram
	case st:
		return chunkenc.EncHistogramST
	}
	return chunkenc.EncHistogram
}

func spansKey(a []histogram.Span) string { return fmt.Sprint(a) }

// hsBuildDirect appends the samples through chunk appenders exactly as the callers in
// tsdb do (head_append.go appendHistogram): a new chunk returned by the appender is
// either the recoded current chunk (replace) or the next chunk (push); prev is handed
// over only with the first sample of a chunk the caller started.
func hsBuildDirect(samples []hsSample, stEnc bool) (*hsBuilt, error) {
	b := &hsBuilt{ints: make([]*histogram.Histogram, len(samples)), floats: make([]*histogram.FloatHistogram, len(samples))}
	var app chunkenc.Appender
	var cur chunkenc.Chunk
	curFloat := false
	for i, s := range samples {
		var prev chunkenc.Appender
		if cur == nil || curFloat != s.isFloat() || s.Cut {
			nc, err := chunkenc.NewEmptyChunk(hsEnc(s.isFloat(), stEnc))
			if err != nil {
				return nil, ev.Failf("NewEmptyChunk: %v", err)
			}
			if cur != nil {
				b.cuts++
			}
			prev = app
			app, err = nc.Appender()
			if err != nil {
				return nil, ev.Failf("Appender on empty chunk: %v", err)
			}
			cur, curFloat = nc, s.isFloat()
			b.chunks = append(b.chunks, cur)
			b.firstIdx = append(b.firstIdx, i)
		}
		var h *histogram.Histogram
		var fh *histogram.FloatHistogram
		var layoutBefore string
		if s.isFloat() {
			fh = s.floatH()
			b.floats[i] = fh
			layoutBefore = spansKey(fh.PositiveSpans) + spansKey(fh.NegativeSpans)
		} else {
			h = s.intH()
			b.ints[i] = h
			layoutBefore = spansKey(h.PositiveSpans) + spansKey(h.NegativeSpans)
		}
		call := func(appendOnly bool) (chunkenc.Chunk, bool, chunkenc.Appender, error) {
			if fh != nil {
				return app.AppendFloatHistogram(prev, s.ST, s.T, fh, appendOnly)
			}
			return app.AppendHistogram(prev, s.ST, s.T, h, appendOnly)
		}
		var (
			nc      chunkenc.Chunk
			recoded bool
			napp    chunkenc.Appender
			err     error
		)
		done := false
		if s.AO && cur.NumSamples() > 0 {
			before := append([]byte(nil), cur.Bytes()...)
			nBefore := cur.NumSamples()
			nc, recoded, napp, err = call(true)
			if err == nil {
				if nc != nil || recoded {
					return nil, ev.Failf("sample %d: appendOnly=true succeeded but returned a new chunk (recoded=%v)", i, recoded)
				}
				if cur.NumSamples() != nBefore+1 {
					return nil, ev.Failf("sample %d: appendOnly=true returned nil error but the chunk has %d samples, had %d", i, cur.NumSamples(), nBefore)
				}
				done = true
			} else {
				b.aoErr++
				if string(before) != string(cur.Bytes()) {
					return nil, ev.Failf("sample %d: appendOnly=true returned error %q but modified the chunk", i, err)
				}
				if napp != app {
					return nil, ev.Failf("sample %d: appendOnly=true returned error %q and a different appender", i, err)
				}
			}
		}
		if !done {
			nc, recoded, napp, err = call(false)
			if err != nil {
				return nil, ev.Failf("sample %d: AppendHistogram(appendOnly=false) returned error %v", i, err)
			}
		}
		if napp == nil {
			return nil, ev.Failf("sample %d: no appender returned", i)
		}
		app = napp
		switch {
		case nc == nil:
		case recoded:
			b.recodes++
			cur = nc
			b.chunks[len(b.chunks)-1] = nc
		default:
			b.incompat++
			cur = nc
			b.chunks = append(b.chunks, nc)
			b.firstIdx = append(b.firstIdx, i)
		}
		var layoutAfter string
		if fh != nil {
			layoutAfter = spansKey(fh.PositiveSpans) + spansKey(fh.NegativeSpans)
		} else {
			layoutAfter = spansKey(h.PositiveSpans) + spansKey(h.NegativeSpans)
		}
		if layoutAfter != layoutBefore {
			b.backward++
		}
	}
	return b, nil
}

// hsObs is one sample read back.
type hsObs struct {
	T, ST int64
	S     sem
}

// ---------------------------------------------------------------- real TSDB wrapper

type hsDBCfg struct {
	Range     int64 // MinBlockDuration = head chunk range
	HistST    bool
	STStorage bool
	OOOWindow int64 `json:",omitempty"`
	OOOCap    int64 `json:",omitempty"`
	V2        bool // AppenderV2
	Batch     int  // samples per commit
}

func (c hsDBCfg) options() *tsdb.Options {
	o := tsdb.DefaultOptions()
	o.MinBlockDuration = c.Range
	o.MaxBlockDuration = c.Range * 16
	o.RetentionDuration = 0
	o.WALSegmentSize = 32 * 1024
	o.OutOfOrderTimeWindow = c.OOOWindow
	if c.OOOCap > 0 {
		o.OutOfOrderCapMax = c.OOOCap
	}
	o.EnableSTStorage = c.STStorage
	if c.STStorage {
		o.FloatChunkEncoding = chunkenc.EncXOR2 // required by validateOpts for ST storage
	}
	o.EnableHistogramSTEncoding = c.HistST
	o.HeadChunksWriteQueueSize = 0
	o.BlockReloadInterval = 24 * time.Hour // no background reloads: the harness owns every reload (0 is clamped to one second)
	o.StripeSize = 16
	return o
}

var hsLabels = labels.FromStrings("__name__", "h", "job", "j")

func hsOpenDB(dir string, c hsDBCfg) (*tsdb.DB, error) {
	db, err := tsdb.Open(dir, promslog.NewNopLogger(), nil, c.options(), nil)
	if err != nil {
		return nil, err
	}
	db.DisableCompactions()
	return db, nil
}

// hsAppendDB appends samples[from:to] to the series in batches; the histogram objects
// handed to the appender are recorded in ints/floats (caller-owned inputs).
func hsAppendDB(db *tsdb.DB, c hsDBCfg, samples []hsSample, idx []int, ints []*histogram.Histogram, floats []*histogram.FloatHistogram) error {
	batch := c.Batch
	if batch <= 0 {
		batch = 1
	}
	for i := 0; i < len(idx); i += batch {
		end := i + batch
		if end > len(idx) {
			end = len(idx)
		}
		var v1 storage.Appender
		var v2 storage.AppenderV2
		if c.V2 {
			v2 = db.AppenderV2(context.Background())
		} else {
			v1 = db.Appender(context.Background())
		}
		for _, k := range idx[i:end] {
			s := samples[k]
			var h *histogram.Histogram
			var fh *histogram.FloatHistogram
			if s.isFloat() {
				fh = s.floatH()
				floats[k] = fh
			} else {
				h = s.intH()
				ints[k] = h
			}
			var err error
			if c.V2 {
				st := int64(0)
				if c.STStorage {
					st = s.ST
				}
				_, err = v2.Append(0, hsLabels, st, s.T, 0, h, fh, storage.AppendV2Options{})
			} else {
				_, err = v1.AppendHistogram(0, hsLabels, s.T, h, fh)
			}
			if err != nil {
				if c.V2 {
					_ = v2.Rollback()
				} else {
					_ = v1.Rollback()
				}
				return ev.Failf("append of sample %d (t=%d) rejected: %v", k, s.T, err)
			}
		}
		var err error
		if c.V2 {
			err = v2.Commit()
		} else {
			err = v1.Commit()
		}
		if err != nil {
			return ev.Failf("commit failed: %v", err)
		}
	}
	return nil
}

// hsDrain reads every sample of an iterator; histograms are obtained with the nil
// argument (fresh objects) and interpreted only after the iteration finished, so a
// recycled slice would show up as a difference.
func hsDrain(it chunkenc.Iterator) ([]hsObs, error) {
	type raw struct {
		t, st int64
		h     *histogram.Histogram
		fh    *histogram.FloatHistogram
	}
	var rs []raw
	for {
		vt := it.Next()
		if vt == chunkenc.ValNone {
			break
		}
		switch vt {
		case chunkenc.ValHistogram:
			t, h := it.AtHistogram(nil)
			rs = append(rs, raw{t: t, st: it.AtST(), h: h})
		case chunkenc.ValFloatHistogram:
			t, fh := it.AtFloatHistogram(nil)
			rs = append(rs, raw{t: t, st: it.AtST(), fh: fh})
		default:
			return nil, ev.Failf("iterator returned value type %v in a histogram series at t=%d", vt, it.AtT())
		}
	}
	if err := it.Err(); err != nil {
		return nil, ev.Failf("iterator error: %v", err)
	}
	out := make([]hsObs, len(rs))
	for i, r := range rs {
		out[i] = hsObs{T: r.t, ST: r.st}
		if r.h != nil {
			out[i].S = semOfInt(r.h)
		} else {
			out[i].S = semOfFloat(r.fh)
		}
	}
	return out, nil
}

// hsQuery returns the samples of the one series from a querier (nil when absent).
func hsQuery(q storage.Querier) ([]hsObs, error) {
	defer q.Close()
	ss := q.Select(context.Background(), true, nil, labels.MustNewMatcher(labels.MatchEqual, "__name__", "h"))
	var out []hsObs
	n := 0
	for ss.Next() {
		n++
		if n > 1 {
			return nil, ev.Failf("query returned more than one series")
		}
		o, err := hsDrain(ss.At().Iterator(nil))
		if err != nil {
			return nil, err
		}
		out = o
	}
	if err := ss.Err(); err != nil {
		return nil, ev.Failf("select error: %v", err)
	}
	return out, nil
}

// hsQueryChunks returns the samples obtained by decoding the chunks of a chunk querier.
func hsQueryChunks(q storage.ChunkQuerier) ([][]hsObs, error) {
	defer q.Close()
	ss := q.Select(context.Background(), true, nil, labels.MustNewMatcher(labels.MatchEqual, "__name__", "h"))
	var out [][]hsObs
	for ss.Next() {
		cit := ss.At().Iterator(nil)
		for cit.Next() {
			m := cit.At()
			o, err := hsDrain(m.Chunk.Iterator(nil))
			if err != nil {
				return nil, err
			}
			out = append(out, o)
		}
		if err := cit.Err(); err != nil {
			return nil, ev.Failf("chunk iterator error: %v", err)
		}
	}
	if err := ss.Err(); err != nil {
		return nil, ev.Failf("chunk select error: %v", err)
	}
	return out, nil
}

func hsTmpDir(prefix string) (string, func(), error) {
	dir, err := os.MkdirTemp("", prefix)
	if err != nil {
		return "", nil, err
	}
	return dir, func() { os.RemoveAll(dir) }, nil
}
