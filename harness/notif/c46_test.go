package notif

import (
	"encoding/json"
	"fmt"
	"io"
	"net/http"
	"net/http/httptest"
	"os"
	"runtime"
	"sort"
	"strconv"
	"strings"
	"sync"
	"sync/atomic"
	"testing"
	"time"

	"github.com/prometheus/client_golang/prometheus"
	dto "github.com/prometheus/client_model/go"
	"github.com/prometheus/common/model"
	"github.com/prometheus/common/promslog"
	"github.com/prometheus/prometheus/config"
	"github.com/prometheus/prometheus/discovery/targetgroup"
	"github.com/prometheus/prometheus/model/labels"
	"github.com/prometheus/prometheus/notifier"
	"pgregory.net/rapid"

	"verifharness/internal/ev"
)

// C46 — The notifier drops only the oldest alerts and preserves order.
//
// A real notifier.Manager (NewManager/ApplyConfig/Run/Send/Stop) talks HTTP to 1-3
// httptest Alertmanagers that answer from a script (2xx / 4xx / 5xx, small latency) and
// can be "gated" by the driver (requests hang until the gate is opened). One driver
// goroutine owns every producer: it sends alert batches (each alert carries a unique,
// increasing `seq` label), changes the Alertmanager set through the target-set channel,
// re-applies the configuration (same or changed Alertmanager config, optionally
// concurrently with a Send), and finally stops the manager.
//
// All oracles are invariants of the observed history (what the fake Alertmanagers
// logged, in request-entry order, plus the notifier's own counters read at harness-owned
// quiescent points); none depends on timing. See the registry fragment for the list.

type c46Resp struct {
	Status  int
	DelayUs int `json:",omitempty"`
}

type c46AM struct {
	Set    int // index of the alertmanager config the AM is discovered for
	Script []c46Resp
}

type c46Op struct {
	Kind   string // send sd apply gate open pause quiesce
	Cls    []int  `json:",omitempty"` // send: class (0..3) per alert; len = batch size
	Live   []bool `json:",omitempty"` // sd: AM i discovered afterwards
	Wait   bool   `json:",omitempty"` // sd: wait until Manager.Alertmanagers() shows the new set
	Set    int    `json:",omitempty"` // apply: alertmanager config that changes (with Rehash)
	Rehash bool   `json:",omitempty"` // apply: change the config (timeout) so that its send loops are replaced
	Conc   bool   `json:",omitempty"` // apply: run concurrently with the next op when that is a send
	AM     int    `json:",omitempty"` // gate/open
	Us     int    `json:",omitempty"` // pause
}

type c46Case struct {
	Cap      int
	MaxBatch int // 0: notifier default (256)
	Drain    bool
	Procs    int
	GRelabel int   // global alert_relabel_configs menu
	SRelabel []int // per alertmanager config alert_relabel_configs menu
	Ext      bool  // global external label region=eu
	AMs      []c46AM
	Ops      []c46Op
	TailGate []bool  // after the last quiescent point: gates closed for these AMs ...
	Tail     []c46Op // ... these sends are made, then Stop

	// Observed, when set, is a recorded history (printed with every violation): the case
	// is then not executed, the pure oracles are re-evaluated on the record. Real
	// schedules do not replay from a seed; the record does.
	Observed *c46Obs `json:",omitempty"`
}

type c46ObsBatch struct {
	Seqs    []int
	Cls     []int
	Start   int64
	ReqSeen []int
	Member  []int
}

type c46ObsEpoch struct {
	Batches []int
	EndKind string
	EndInit int64
	EndDone int64
	Ended   bool
}

type c46ObsReq struct {
	Entry, Done int64
	Status      int
	Seqs        []int
}

type c46Obs struct {
	Batches []c46ObsBatch
	Epochs  [][]c46ObsEpoch // per AM
	Reqs    [][]c46ObsReq   // per AM, entry order
}

var c46ClsNames = []string{"a", "b", "c", "d"}

func genC46Send(t *rapid.T, cap int) c46Op {
	n := rapid.IntRange(1, 6).Draw(t, "nalerts")
	if rapid.IntRange(0, 7).Draw(t, "bigBatch") == 0 {
		n = rapid.IntRange(cap, cap+4).Draw(t, "nbig")
	}
	op := c46Op{Kind: "send"}
	for i := 0; i < n; i++ {
		op.Cls = append(op.Cls, rapid.SampledFrom([]int{0, 0, 1, 1, 2, 3, 3}).Draw(t, "cls"))
	}
	return op
}

func genC46(t *rapid.T) c46Case {
	c := c46Case{
		Cap:      rapid.IntRange(1, 20).Draw(t, "cap"),
		MaxBatch: rapid.SampledFrom([]int{0, 1, 2, 3, 5, 8, 64}).Draw(t, "maxBatch"),
		Drain:    rapid.Bool().Draw(t, "drain"),
		Procs:    rapid.SampledFrom([]int{1, 2, 4, 8}).Draw(t, "procs"),
		GRelabel: rapid.SampledFrom([]int{0, 0, 1, 2, 3, 4, 5}).Draw(t, "grelabel"),
		Ext:      rapid.Bool().Draw(t, "ext"),
	}
	nsets := rapid.IntRange(1, 2).Draw(t, "nsets")
	for i := 0; i < nsets; i++ {
		c.SRelabel = append(c.SRelabel, rapid.SampledFrom([]int{0, 0, 1, 2}).Draw(t, "srelabel"))
	}
	nam := rapid.IntRange(1, 3).Draw(t, "nam")
	for i := 0; i < nam; i++ {
		am := c46AM{Set: rapid.IntRange(0, nsets-1).Draw(t, "amset")}
		ns := rapid.IntRange(1, 4).Draw(t, "nscript")
		for j := 0; j < ns; j++ {
			am.Script = append(am.Script, c46Resp{
				Status:  rapid.SampledFrom([]int{200, 200, 200, 200, 200, 202, 204, 500, 503, 400, 404}).Draw(t, "status"),
				DelayUs: rapid.SampledFrom([]int{0, 0, 0, 200, 1000, 3000}).Draw(t, "delay"),
			})
		}
		c.AMs = append(c.AMs, am)
	}
	live := func() []bool {
		l := make([]bool, nam)
		for i := range l {
			l[i] = rapid.IntRange(0, 3).Draw(t, "live") > 0
		}
		return l
	}
	all := make([]bool, nam)
	for i := range all {
		all[i] = true
	}
	if rapid.IntRange(0, 4).Draw(t, "initAll") > 0 {
		c.Ops = append(c.Ops, c46Op{Kind: "sd", Live: all, Wait: true})
	} else {
		c.Ops = append(c.Ops, c46Op{Kind: "sd", Live: live(), Wait: rapid.Bool().Draw(t, "initWait")})
	}
	nops := rapid.IntRange(3, 24).Draw(t, "nops")
	for i := 0; i < nops; i++ {
		switch k := rapid.IntRange(0, 19).Draw(t, "opKind"); {
		case k < 10:
			c.Ops = append(c.Ops, genC46Send(t, c.Cap))
		case k < 12:
			c.Ops = append(c.Ops, c46Op{Kind: "gate", AM: rapid.IntRange(0, nam-1).Draw(t, "gateAM")})
		case k < 13:
			c.Ops = append(c.Ops, c46Op{Kind: "open", AM: rapid.IntRange(0, nam-1).Draw(t, "openAM")})
		case k < 15:
			if rapid.IntRange(0, 2).Draw(t, "quiesceBeforeSD") == 0 {
				c.Ops = append(c.Ops, c46Op{Kind: "quiesce"})
			}
			c.Ops = append(c.Ops, c46Op{Kind: "sd", Live: live(), Wait: rapid.Bool().Draw(t, "sdWait")})
		case k < 17:
			if rapid.IntRange(0, 2).Draw(t, "quiesceBeforeApply") == 0 {
				c.Ops = append(c.Ops, c46Op{Kind: "quiesce"})
			}
			c.Ops = append(c.Ops, c46Op{Kind: "apply", Set: rapid.IntRange(0, nsets-1).Draw(t, "applySet"),
				Rehash: rapid.Bool().Draw(t, "rehash"), Conc: rapid.Bool().Draw(t, "conc")})
		case k < 19:
			c.Ops = append(c.Ops, c46Op{Kind: "pause", Us: rapid.SampledFrom([]int{0, 0, 100, 1000, 5000}).Draw(t, "pauseUs")})
		default:
			c.Ops = append(c.Ops, c46Op{Kind: "quiesce"})
		}
	}
	if rapid.IntRange(0, 3).Draw(t, "tail") > 0 {
		for i := 0; i < nam; i++ {
			c.TailGate = append(c.TailGate, rapid.IntRange(0, 2).Draw(t, "tailGate") > 0)
		}
		nt := rapid.IntRange(1, 5).Draw(t, "ntail")
		for i := 0; i < nt; i++ {
			c.Tail = append(c.Tail, genC46Send(t, c.Cap))
		}
	}
	return c
}

// ---- reference model of alert relabeling (written from the configuration semantics) ----

func c46AlertLabels(seq, cls int) map[string]string {
	l := map[string]string{"alertname": "A", "seq": strconv.Itoa(seq), "cls": c46ClsNames[cls], "extra": "x"}
	if cls == 3 {
		l["region"] = "own"
	}
	return l
}

// c46Expect returns the labels the alert must carry when it reaches an Alertmanager of
// the given set, or false when relabeling drops it.
func c46Expect(c *c46Case, set, seq, cls int) (map[string]string, bool) {
	l := c46AlertLabels(seq, cls)
	if c.Ext && l["region"] == "" {
		l["region"] = "eu"
	}
	switch c.GRelabel {
	case 1:
		if l["cls"] == "a" {
			return nil, false
		}
	case 2:
		if l["cls"] != "a" && l["cls"] != "b" {
			return nil, false
		}
	case 3:
		l["team"] = "t-" + l["cls"]
	case 4:
		delete(l, "extra")
	case 5:
		if l["cls"] == "b" {
			return nil, false
		}
		l["team"] = "t-" + l["cls"]
	}
	switch c.SRelabel[set] {
	case 1:
		if l["cls"] == "c" {
			return nil, false
		}
	case 2:
		l["am_set"] = fmt.Sprintf("s%d", set)
	}
	return l, true
}

func c46RelabelYAML(menu int, indent string, set int, global bool) string {
	var rules []string
	if global {
		switch menu {
		case 1:
			rules = []string{"- source_labels: [cls]\n  regex: a\n  action: drop"}
		case 2:
			rules = []string{"- source_labels: [cls]\n  regex: a|b\n  action: keep"}
		case 3:
			rules = []string{"- source_labels: [cls]\n  regex: (.*)\n  target_label: team\n  replacement: t-$1\n  action: replace"}
		case 4:
			rules = []string{"- regex: extra\n  action: labeldrop"}
		case 5:
			rules = []string{"- source_labels: [cls]\n  regex: b\n  action: drop",
				"- source_labels: [cls]\n  regex: (.*)\n  target_label: team\n  replacement: t-$1\n  action: replace"}
		}
	} else {
		switch menu {
		case 1:
			rules = []string{"- source_labels: [cls]\n  regex: c\n  action: drop"}
		case 2:
			rules = []string{fmt.Sprintf("- target_label: am_set\n  replacement: s%d\n  action: replace", set)}
		}
	}
	if len(rules) == 0 {
		return ""
	}
	out := indent + "alert_relabel_configs:\n"
	for _, r := range rules {
		for _, line := range strings.Split(r, "\n") {
			out += indent + line + "\n"
		}
	}
	return out
}

func c46ConfigYAML(c *c46Case, timeouts []int, prefix string) string {
	s := ""
	if c.Ext {
		s += "global:\n  external_labels:\n    region: eu\n"
	}
	s += "alerting:\n"
	s += c46RelabelYAML(c.GRelabel, "  ", 0, true)
	s += "  alertmanagers:\n"
	for i := range c.SRelabel {
		s += "  - api_version: v2\n"
		s += "    path_prefix: " + prefix + "\n"
		s += fmt.Sprintf("    timeout: %ds\n", timeouts[i])
		s += "    static_configs:\n    - targets: ['unused.invalid:9093']\n"
		s += c46RelabelYAML(c.SRelabel[i], "    ", i, false)
	}
	return s
}

// ---- fake Alertmanager ----

type c46Req struct {
	entry, done int64
	seqs        []int
	lbls        []map[string]string
	status      int
	bad         string
}

type c46Srv struct {
	idx    int
	url    string // as used by the notifier: http://host:port/api/v2/alerts
	host   string
	srv    *httptest.Server
	clock  *atomic.Int64
	script []c46Resp
	path   string // the only path that belongs to this history

	mu       sync.Mutex
	cond     *sync.Cond
	reqs     []*c46Req
	inflight int
	closed   bool
	force    bool
}

// c46RunID makes the Alertmanager URLs of every history unique. A stopped send loop of an
// earlier history (or of another shard process) may still have a request on its way; ports
// are reused by later httptest servers, so such a straggler is recognised by its path and
// ignored.
var c46RunID atomic.Int64

func (a *c46Srv) ServeHTTP(w http.ResponseWriter, r *http.Request) {
	if r.URL.Path != a.path {
		io.Copy(io.Discard, r.Body)
		w.WriteHeader(http.StatusGone)
		return
	}
	a.mu.Lock()
	rq := &c46Req{entry: a.clock.Add(1)}
	resp := a.script[len(a.reqs)%len(a.script)]
	a.reqs = append(a.reqs, rq)
	a.inflight++
	a.mu.Unlock()

	var seqs []int
	var lbls []map[string]string
	bad := ""
	b, err := io.ReadAll(r.Body)
	if err != nil {
		bad = "body: " + err.Error()
	} else {
		var alerts []struct {
			Labels map[string]string `json:"labels"`
		}
		if err := json.Unmarshal(b, &alerts); err != nil {
			bad = "json: " + err.Error()
		}
		for _, al := range alerts {
			n, err := strconv.Atoi(al.Labels["seq"])
			if err != nil {
				bad = "alert without seq label"
				n = -1
			}
			seqs = append(seqs, n)
			lbls = append(lbls, al.Labels)
		}
	}
	if r.Method != http.MethodPost {
		bad = "unexpected method " + r.Method
	}
	a.mu.Lock()
	rq.seqs, rq.lbls, rq.bad = seqs, lbls, bad
	a.mu.Unlock()

	if resp.DelayUs > 0 {
		time.Sleep(time.Duration(resp.DelayUs) * time.Microsecond)
	}
	a.mu.Lock()
	for a.closed && !a.force {
		a.cond.Wait()
	}
	a.mu.Unlock()
	w.WriteHeader(resp.Status)
	a.mu.Lock()
	rq.status = resp.Status
	rq.done = a.clock.Add(1)
	a.inflight--
	a.mu.Unlock()
}

func (a *c46Srv) setGate(closed bool) {
	a.mu.Lock()
	a.closed = closed
	a.cond.Broadcast()
	a.mu.Unlock()
}

func (a *c46Srv) forceOpen() {
	a.mu.Lock()
	a.force = true
	a.cond.Broadcast()
	a.mu.Unlock()
}

func (a *c46Srv) nreq() int {
	a.mu.Lock()
	defer a.mu.Unlock()
	return len(a.reqs)
}

// snapshot returns copies of the request log; complete=false while a request is still
// being handled.
func (a *c46Srv) snapshot() (reqs []c46Req, complete bool) {
	a.mu.Lock()
	defer a.mu.Unlock()
	complete = a.inflight == 0
	for _, r := range a.reqs {
		reqs = append(reqs, *r)
		if r.done == 0 {
			complete = false
		}
	}
	return reqs, complete
}

// ---- driver bookkeeping ----

const (
	c46Absent = iota
	c46Adding
	c46Live
	c46Removing
)

type c46Batch struct {
	seqs    []int
	cls     []int
	start   int64
	reqSeen []int // per AM: requests that had entered before Send was called
	member  []int // per AM: 0 not enqueued, 1 maybe, 2 certainly
	epoch   []int // per AM: epoch index the batch belongs to (when member>0)
}

type c46Epoch struct {
	am       int
	batches  []int // candidate batches in order
	endKind  string
	endInit  int64
	endDone  int64
	tainted  bool  // counters of this URL may include late updates of an earlier send loop
	lastSend int64 // start of the last Send that may have reached the loop
	quietAt  int64 // last quiescent point at which the loop's counters matched exactly
	ended    bool
	exact    bool // last accounting comparison had no uncertainty about what was enqueued
}

type c46Run struct {
	c       *c46Case
	r       *ev.Rec
	clock   atomic.Int64
	srvs    []*c46Srv
	mgr     *notifier.Manager
	reg     *prometheus.Registry
	tsets   chan map[string][]*targetgroup.Group
	runDone chan struct{}

	state    []int
	epochs   [][]*c46Epoch // per AM
	batches  []*c46Batch
	nextSeq  int
	clsOf    map[int]int
	desired  []bool
	timeouts []int
	// AMs whose current send loops may be replaced by an ApplyConfig running concurrently
	concRehashSet int
	prefix        string // URL path prefix unique to this history
	why           string // set when the run became inconclusive
}

const (
	c46Bound      = 25 * time.Second // any single wait of the driver; beyond: inconclusive
	c46QuietPolls = 150
	c46QuietMin   = 3 * time.Second
)

func (x *c46Run) cur(a int) *c46Epoch {
	if n := len(x.epochs[a]); n > 0 && !x.epochs[a][n-1].ended {
		return x.epochs[a][n-1]
	}
	return nil
}

func (x *c46Run) urlsNow() map[string]bool {
	m := map[string]bool{}
	for _, u := range x.mgr.Alertmanagers() {
		m[u.String()] = true
	}
	return m
}

// observe updates adding->live and removing->absent from what the manager reports.
func (x *c46Run) observe() {
	pending := false
	for _, s := range x.state {
		if s == c46Adding || s == c46Removing {
			pending = true
		}
	}
	if !pending {
		return
	}
	now := x.urlsNow()
	for a, s := range x.state {
		switch {
		case s == c46Adding && now[x.srvs[a].url]:
			x.state[a] = c46Live
		case s == c46Removing && !now[x.srvs[a].url]:
			x.endEpoch(a)
		}
	}
}

func (x *c46Run) endEpoch(a int) {
	x.state[a] = c46Absent
	if e := x.cur(a); e != nil {
		e.ended = true
		e.endDone = x.clock.Add(1)
	}
}

func (x *c46Run) waitSettled() bool {
	deadline := time.Now().Add(c46Bound)
	for {
		x.observe()
		ok := true
		for _, s := range x.state {
			if s == c46Adding || s == c46Removing {
				ok = false
			}
		}
		if ok {
			return true
		}
		if time.Now().After(deadline) {
			x.why = "the Alertmanager set reported by the manager did not reach the pushed target set"
			return false
		}
		time.Sleep(500 * time.Microsecond)
	}
}

func (x *c46Run) markEnd(a int, kind string) {
	if e := x.cur(a); e != nil && e.endKind == "" {
		e.endKind = kind
		e.endInit = x.clock.Add(1)
	}
}

// initRemoval notes that the AM's send loop is about to be stopped and opens its gate, so
// that a drain (which runs under the manager's locks) cannot block the driver.
func (x *c46Run) initRemoval(a int, kind string) {
	x.markEnd(a, kind)
	x.srvs[a].setGate(false)
}

func (x *c46Run) pushSD() bool {
	m := map[string][]*targetgroup.Group{}
	for set := range x.c.SRelabel {
		g := &targetgroup.Group{Source: fmt.Sprintf("set%d", set)}
		for a, am := range x.c.AMs {
			if am.Set == set && x.desired[a] {
				g.Targets = append(g.Targets, model.LabelSet{model.AddressLabel: model.LabelValue(x.srvs[a].host)})
			}
		}
		m[fmt.Sprintf("config-%d", set)] = []*targetgroup.Group{g}
	}
	select {
	case x.tsets <- m:
		return true
	case <-time.After(c46Bound):
		x.why = "the manager did not accept a target set update"
		return false
	}
}

func (x *c46Run) opSD(op c46Op) bool {
	live := make([]bool, len(x.c.AMs))
	copy(live, op.Live)
	x.observe()
	// A removed AM is re-added only after the removal is known to be complete, so that the
	// alerts of two send loops of one URL are disjoint, ordered seq ranges.
	for a := range live {
		if live[a] && x.state[a] == c46Removing {
			if !x.waitSettled() {
				return false
			}
			break
		}
	}
	for a := range live {
		switch {
		case live[a] && x.state[a] == c46Absent:
			x.state[a] = c46Adding
			x.newEpoch(a)
		case !live[a] && (x.state[a] == c46Live || x.state[a] == c46Adding):
			x.state[a] = c46Removing
			x.initRemoval(a, "sd")
		}
	}
	x.desired = live
	if !x.pushSD() {
		return false
	}
	if op.Wait {
		return x.waitSettled()
	}
	return true
}

// newEpoch starts the bookkeeping of a new send loop for AM a.
//
// The notifier deletes the per-URL counters when a loop stops, but the goroutine of the
// stopped loop still adds the outcome of the request it had in flight - onto the series a
// later loop for the same URL uses. The harness cannot observe when the client side
// processes a response, so the counters of a re-created loop are compared only when every
// earlier loop of the URL was provably idle when it was stopped: a quiescent point with
// exact accounting was passed after the last Send that could reach it.
func (x *c46Run) newEpoch(a int) {
	e := &c46Epoch{am: a}
	if n := len(x.epochs[a]); n > 0 {
		p := x.epochs[a][n-1]
		e.tainted = p.tainted || (p.lastSend > 0 && p.quietAt < p.lastSend)
	}
	x.epochs[a] = append(x.epochs[a], e)
}

func (x *c46Run) opSend(op c46Op, concSet int) {
	b := &c46Batch{cls: op.Cls}
	var alerts []*notifier.Alert
	for _, cls := range op.Cls {
		if cls < 0 || cls > 3 {
			cls = 0
		}
		x.nextSeq++
		b.seqs = append(b.seqs, x.nextSeq)
		x.clsOf[x.nextSeq] = cls
		l := c46AlertLabels(x.nextSeq, cls)
		names := make([]string, 0, len(l))
		for k := range l {
			names = append(names, k)
		}
		sort.Strings(names)
		kv := []string{}
		for _, k := range names {
			kv = append(kv, k, l[k])
		}
		alerts = append(alerts, &notifier.Alert{Labels: labels.FromStrings(kv...)})
	}
	x.observe()
	na := len(x.c.AMs)
	b.reqSeen, b.member, b.epoch = make([]int, na), make([]int, na), make([]int, na)
	for a := 0; a < na; a++ {
		b.reqSeen[a] = x.srvs[a].nreq()
		switch x.state[a] {
		case c46Live:
			b.member[a] = 2
			if concSet == x.c.AMs[a].Set {
				b.member[a] = 1
			}
		case c46Adding, c46Removing:
			b.member[a] = 1
		}
	}
	b.start = x.clock.Add(1)
	for a := 0; a < na; a++ {
		if b.member[a] > 0 {
			e := x.cur(a)
			b.epoch[a] = len(x.epochs[a]) - 1
			e.batches = append(e.batches, len(x.batches))
			e.lastSend = b.start
		}
	}
	x.batches = append(x.batches, b)
	x.mgr.Send(alerts...)
	x.clock.Add(1)
}

func (x *c46Run) loadConfig() (*config.Config, error) {
	return config.Load(c46ConfigYAML(x.c, x.timeouts, x.prefix), promslog.NewNopLogger())
}

// opApply returns (ok, consumedNext).
func (x *c46Run) opApply(op c46Op, next *c46Op) (bool, bool) {
	set := op.Set
	if set < 0 || set >= len(x.c.SRelabel) {
		set = 0
	}
	if op.Rehash {
		if !x.waitSettled() {
			return false, false
		}
		x.timeouts[set]++
	}
	cfg, err := x.loadConfig()
	if err != nil {
		x.why = "harness config does not load: " + err.Error()
		return false, false
	}
	done := make(chan error, 1)
	if op.Rehash {
		for a, am := range x.c.AMs {
			if am.Set == set && x.state[a] == c46Live {
				x.initRemoval(a, "rehash")
			}
		}
	}
	go func() { done <- x.mgr.ApplyConfig(cfg) }()
	consumed := false
	if op.Conc && next != nil && next.Kind == "send" {
		cs := -1
		if op.Rehash {
			cs = set
		}
		x.opSend(*next, cs)
		consumed = true
	}
	select {
	case err := <-done:
		if err != nil {
			x.why = "ApplyConfig failed: " + err.Error()
			return false, consumed
		}
	case <-time.After(c46Bound):
		x.why = "ApplyConfig did not return"
		return false, consumed
	}
	if op.Rehash {
		any := false
		for a, am := range x.c.AMs {
			if am.Set == set && x.state[a] == c46Live {
				x.endEpoch(a)
				if x.desired[a] {
					x.state[a] = c46Adding
					x.newEpoch(a)
					any = true
				}
			}
		}
		// like the discovery manager after a reload: the full target state is sent again
		_ = any
		if !x.pushSD() {
			return false, consumed
		}
	}
	return true, consumed
}

// ---- metrics ----

type c46Counters struct{ sent, errors, dropped, qlen float64 }

func (x *c46Run) counters() map[string]c46Counters {
	out := map[string]c46Counters{}
	mfs, err := x.reg.Gather()
	if err != nil {
		return out
	}
	for _, mf := range mfs {
		var which int
		switch mf.GetName() {
		case "prometheus_notifications_sent_total":
			which = 1
		case "prometheus_notifications_errors_total":
			which = 2
		case "prometheus_notifications_dropped_total":
			which = 3
		case "prometheus_notifications_queue_length":
			which = 4
		default:
			continue
		}
		for _, m := range mf.GetMetric() {
			u := ""
			for _, lp := range m.GetLabel() {
				if lp.GetName() == "alertmanager" {
					u = lp.GetValue()
				}
			}
			cv := out[u]
			switch which {
			case 1:
				cv.sent = m.GetCounter().GetValue()
			case 2:
				cv.errors = m.GetCounter().GetValue()
			case 3:
				cv.dropped = m.GetCounter().GetValue()
			case 4:
				cv.qlen = m.GetGauge().GetValue()
			}
			out[u] = cv
		}
	}
	_ = dto.MetricType_COUNTER
	return out
}

// ---- oracles over the observed history ----

type c46Pos struct {
	seq   int
	batch int // index into x.batches
}

// survivors lists, in order, the alerts of the epoch's candidate batches that survive
// relabeling for the AM's set.
func (x *c46Run) survivors(e *c46Epoch) []c46Pos {
	var out []c46Pos
	set := x.c.AMs[e.am].Set
	for _, bi := range e.batches {
		for _, s := range x.batches[bi].seqs {
			if _, ok := c46Expect(x.c, set, s, x.clsOf[s]); ok {
				out = append(out, c46Pos{seq: s, batch: bi})
			}
		}
	}
	return out
}

func (x *c46Run) epochOfSeq(a, seq int) int {
	for ei, e := range x.epochs[a] {
		for _, bi := range e.batches {
			b := x.batches[bi]
			if seq >= b.seqs[0] && seq <= b.seqs[len(b.seqs)-1] {
				return ei
			}
		}
	}
	return -1
}

func c46ShowReqs(reqs []c46Req) string {
	var sb strings.Builder
	for i, rq := range reqs {
		fmt.Fprintf(&sb, "    #%d entry@%d done@%d status=%d seqs=%v %s\n", i, rq.entry, rq.done, rq.status, rq.seqs, rq.bad)
	}
	return sb.String()
}

func (x *c46Run) showHistory(a int, reqs []c46Req) string {
	var sb strings.Builder
	fmt.Fprintf(&sb, "  capacity=%d maxBatch=%d drain=%v; AM %d (set %d) request log in entry order:\n", x.c.Cap, x.c.MaxBatch, x.c.Drain, a, x.c.AMs[a].Set)
	sb.WriteString(c46ShowReqs(reqs))
	for ei, e := range x.epochs[a] {
		fmt.Fprintf(&sb, "  send-loop period %d: end=%q endInit@%d endDone@%d tainted=%v; batches:", ei, e.endKind, e.endInit, e.endDone, e.tainted)
		for _, bi := range e.batches {
			b := x.batches[bi]
			fmt.Fprintf(&sb, " [%d..%d member=%d start@%d reqSeen=%d]", b.seqs[0], b.seqs[len(b.seqs)-1], b.member[a], b.start, b.reqSeen[a])
		}
		sb.WriteString("\n")
	}
	if js, err := json.Marshal(x.observed()); err == nil {
		fmt.Fprintf(&sb, "  OBSERVED-HISTORY-JSON (put it into the case's Observed field to re-check the oracle): %s\n", js)
	}
	return sb.String()
}

func (x *c46Run) observed() *c46Obs {
	o := &c46Obs{}
	for _, b := range x.batches {
		o.Batches = append(o.Batches, c46ObsBatch{Seqs: b.seqs, Cls: b.cls, Start: b.start, ReqSeen: b.reqSeen, Member: b.member})
	}
	for a := range x.epochs {
		var el []c46ObsEpoch
		for _, e := range x.epochs[a] {
			el = append(el, c46ObsEpoch{Batches: e.batches, EndKind: e.endKind, EndInit: e.endInit, EndDone: e.endDone, Ended: e.ended})
		}
		o.Epochs = append(o.Epochs, el)
		var rl []c46ObsReq
		if a < len(x.srvs) {
			reqs, _ := x.srvs[a].snapshot()
			for _, rq := range reqs {
				rl = append(rl, c46ObsReq{Entry: rq.entry, Done: rq.done, Status: rq.status, Seqs: rq.seqs})
			}
		} else if x.c.Observed != nil && a < len(x.c.Observed.Reqs) {
			rl = x.c.Observed.Reqs[a]
		}
		o.Reqs = append(o.Reqs, rl)
	}
	return o
}

// recheck evaluates the pure oracles on a recorded history.
func c46Recheck(c c46Case, r *ev.Rec) error {
	o := c.Observed
	na := len(c.AMs)
	if len(o.Epochs) != na || len(o.Reqs) != na {
		r.Discard()
		return nil
	}
	x := &c46Run{c: &c, r: r, clsOf: map[int]int{}}
	for _, ob := range o.Batches {
		if len(ob.Seqs) == 0 || len(ob.Seqs) != len(ob.Cls) || len(ob.ReqSeen) != na || len(ob.Member) != na {
			r.Discard()
			return nil
		}
		for i, sq := range ob.Seqs {
			x.clsOf[sq] = ob.Cls[i] & 3
		}
		x.batches = append(x.batches, &c46Batch{seqs: ob.Seqs, cls: ob.Cls, start: ob.Start, reqSeen: ob.ReqSeen, member: ob.Member, epoch: make([]int, na)})
	}
	x.epochs = make([][]*c46Epoch, na)
	for a := range o.Epochs {
		for _, oe := range o.Epochs[a] {
			for _, bi := range oe.Batches {
				if bi < 0 || bi >= len(x.batches) {
					r.Discard()
					return nil
				}
			}
			x.epochs[a] = append(x.epochs[a], &c46Epoch{am: a, batches: oe.Batches, endKind: oe.EndKind, endInit: oe.EndInit, endDone: oe.EndDone, ended: oe.Ended})
		}
	}
	r.Class("recorded-history")
	for a := range o.Reqs {
		var reqs []c46Req
		for _, or := range o.Reqs[a] {
			reqs = append(reqs, c46Req{entry: or.Entry, done: or.Done, status: or.Status, seqs: or.Seqs})
		}
		if err := x.checkSafety(a, reqs); err != nil {
			return err
		}
		for _, e := range x.epochs[a] {
			if msg, _ := x.completeness(e, reqs); msg != "" {
				return ev.Failf("%s\n%s", msg, x.showHistory(a, reqs))
			}
		}
	}
	return nil
}

// checkSafety checks the prefix-closed invariants of AM a's log: known alerts with the
// expected labels, batch size, one send loop per request, strictly increasing order.
func (x *c46Run) checkSafety(a int, reqs []c46Req) error {
	maxb := x.c.MaxBatch
	if maxb <= 0 {
		maxb = notifier.DefaultMaxBatchSize
	}
	set := x.c.AMs[a].Set
	lastSeq := map[int]int{} // epoch -> last seq seen
	lastReq := map[int]int{}
	for ri, rq := range reqs {
		if rq.done == 0 && rq.seqs == nil {
			continue // body not read yet
		}
		if rq.bad != "" {
			return ev.Failf("AM %d request #%d is malformed: %s\n%s", a, ri, rq.bad, x.showHistory(a, reqs))
		}
		if len(rq.seqs) > maxb {
			return ev.Failf("AM %d request #%d carries %d alerts, more than the maximum batch size %d\n%s", a, ri, len(rq.seqs), maxb, x.showHistory(a, reqs))
		}
		ep := -2
		for i, s := range rq.seqs {
			cls, known := x.clsOf[s]
			if !known {
				return ev.Failf("AM %d request #%d carries seq %d which was never sent\n%s", a, ri, s, x.showHistory(a, reqs))
			}
			want, ok := c46Expect(x.c, set, s, cls)
			if !ok {
				return ev.Failf("AM %d request #%d carries seq %d (cls %s) which alert relabeling drops (global menu %d, set menu %d)\n%s", a, ri, s, c46ClsNames[cls], x.c.GRelabel, x.c.SRelabel[set], x.showHistory(a, reqs))
			}
			var got map[string]string
			if i < len(rq.lbls) {
				got = rq.lbls[i]
			}
			same := len(got) == len(want)
			for k, v := range want {
				if got[k] != v {
					same = false
				}
			}
			if rq.lbls == nil {
				same = true
			}
			if !same {
				return ev.Failf("AM %d request #%d seq %d: labels %v, expected after relabeling %v", a, ri, s, got, want)
			}
			e := x.epochOfSeq(a, s)
			if e < 0 {
				return ev.Failf("AM %d request #%d carries seq %d, sent while this Alertmanager was known not to be in the set\n%s", a, ri, s, x.showHistory(a, reqs))
			}
			if ep == -2 {
				ep = e
			} else if ep != e {
				return ev.Failf("AM %d request #%d mixes alerts of two send-loop periods (seq %d)\n%s", a, ri, s, x.showHistory(a, reqs))
			}
			if prev, ok := lastSeq[e]; ok && s <= prev {
				return x.orderViolation(a, reqs, e, ri, lastReq[e], s, prev)
			}
			lastSeq[e] = s
			lastReq[e] = ri
		}
	}
	return nil
}

func (x *c46Run) orderViolation(a int, reqs []c46Req, e, ri, prevReq, s, prev int) error {
	kind := "out of order"
	for i := 0; i < ri; i++ {
		for _, o := range reqs[i].seqs {
			if o == s {
				kind = "a duplicate (already delivered in request #" + strconv.Itoa(i) + ")"
			}
		}
	}
	msg := fmt.Sprintf("AM %d received seq %d in request #%d after seq %d in request #%d: %s — the received sequence is not an order-preserving subsequence of the sent one\n%s",
		a, s, ri, prev, prevReq, kind, x.showHistory(a, reqs))
	if x.drainOvertake(a, reqs, e, ri, prevReq) {
		return ev.FailSig("drain-overtakes-inflight-batch", "%s  root cause: sendLoop.stop() drains the queue in the caller's goroutine while the loop goroutine still has its current batch in flight; the drained (newer) batch reached the Alertmanager first", msg)
	}
	return ev.Failf("%s", msg)
}

// drainOvertake recognises exactly one root cause: with drain_on_shutdown the stopping
// goroutine sends the queued batches while the batch the loop goroutine had already taken
// is still on its way, and a drained batch enters the Alertmanager first. Predicate:
// draining is on; the loop of this period was being stopped when both requests entered;
// the late request is not a duplicate; it is the only misplaced request of the period
// (without it the period's sequence is strictly increasing).
func (x *c46Run) drainOvertake(a int, reqs []c46Req, e, ri, prevReq int) bool {
	ep := x.epochs[a][e]
	if !x.c.Drain || ep.endKind == "" || ep.endInit == 0 {
		return false
	}
	if reqs[ri].entry <= ep.endInit || reqs[prevReq].entry <= ep.endInit {
		return false
	}
	seen := map[int]bool{}
	last := 0
	for i, rq := range reqs {
		if len(rq.seqs) == 0 || x.epochOfSeq(a, rq.seqs[0]) != e {
			continue
		}
		for _, s := range rq.seqs {
			if seen[s] {
				return false // duplicate delivery is a different defect
			}
			seen[s] = true
			if i == ri {
				continue
			}
			if s <= last {
				return false
			}
			last = s
		}
	}
	return true
}

// completeness: every alert certainly enqueued for the epoch's send loop is either in a
// request, or can have been dropped as the oldest of a full queue, or (no draining) was
// still queued when the loop was stopped. Returns "" when satisfied.
func (x *c46Run) completeness(e *c46Epoch, reqs []c46Req) (string, int) {
	a := e.am
	surv := x.survivors(e)
	if len(surv) == 0 {
		return "", 0
	}
	firstReq := map[int]int{} // seq -> request index
	for ri, rq := range reqs {
		for _, s := range rq.seqs {
			if _, ok := firstReq[s]; !ok {
				firstReq[s] = ri
			}
		}
	}
	attemptedInBatch := map[int]bool{}
	for _, p := range surv {
		if _, ok := firstReq[p.seq]; ok {
			attemptedInBatch[p.batch] = true
		}
	}
	// effective range of batches certainly enqueued
	lo, hi := -1, -1
	for _, bi := range e.batches {
		if x.batches[bi].member[a] == 2 || attemptedInBatch[bi] {
			if lo < 0 {
				lo = bi
			}
			hi = bi
		}
	}
	if lo < 0 {
		return "", 0
	}
	// endAfter[i]: for position i the number of survivors up to the end of each batch
	batchEnd := map[int]int{} // batch -> position (exclusive) of its end in surv
	for i, p := range surv {
		batchEnd[p.batch] = i + 1
	}
	// r(p): first request holding a later alert; computed backwards
	nextReq := make([]int, len(surv)+1)
	const inf = 1 << 30
	nextReq[len(surv)] = inf
	for i := len(surv) - 1; i >= 0; i-- {
		nextReq[i] = nextReq[i+1]
		if ri, ok := firstReq[surv[i].seq]; ok && ri < nextReq[i] {
			nextReq[i] = ri
		}
	}
	overflowed := 0
	for i, p := range surv {
		if p.batch < lo || p.batch > hi {
			continue
		}
		if _, ok := firstReq[p.seq]; ok {
			continue
		}
		rp := nextReq[i+1]
		// dropped as the oldest: some batch pushed at least Cap newer alerts behind it
		// before the first request with a newer alert entered the Alertmanager.
		just := false
		for _, bi := range e.batches {
			if bi < p.batch {
				continue
			}
			end, ok := batchEnd[bi]
			if !ok {
				continue
			}
			if end-(i+1) >= x.c.Cap && x.batches[bi].reqSeen[a] <= rp {
				just = true
				break
			}
		}
		if just {
			overflowed++
			continue
		}
		if e.endKind != "" && !x.c.Drain && rp == inf {
			continue // still queued when the loop was stopped without draining
		}
		newer := len(surv) - (i + 1)
		if e.endKind != "" && x.c.Drain && rp == inf {
			return fmt.Sprintf("seq %d was queued for AM %d when its send loop was stopped (%s) with drain_on_shutdown, but it was never put into a request; only %d newer alerts followed it (capacity %d), so it cannot have been dropped by overflow",
				p.seq, a, e.endKind, newer, x.c.Cap), overflowed
		}
		if rp == inf {
			return fmt.Sprintf("seq %d was enqueued for AM %d (its send loop is running, nothing is in flight) but it was never put into a request; only %d newer alerts followed it (capacity %d), so it cannot have been dropped as the oldest of a full queue",
				p.seq, a, newer, x.c.Cap), overflowed
		}
		return fmt.Sprintf("seq %d was enqueued for AM %d but never put into a request, although newer alerts were (first in request #%d); it cannot have been the oldest of a full queue: no Send that started before that request entered had pushed %d newer alerts behind it",
			p.seq, a, rp, x.c.Cap), overflowed
	}
	return "", overflowed
}

// accounting compares the notifier's counters for a live AM with what the AM saw.
func (x *c46Run) accounting(a int, reqs []c46Req, cv c46Counters, present bool) string {
	e := x.cur(a)
	if e == nil || x.state[a] != c46Live || e.tainted {
		return ""
	}
	ei := len(x.epochs[a]) - 1
	if !present {
		return fmt.Sprintf("AM %d has a send loop but no notification counters are exported for %s", a, x.srvs[a].url)
	}
	var ok, failed float64
	attemptedInBatch := map[int]bool{}
	for _, rq := range reqs {
		if len(rq.seqs) == 0 || x.epochOfSeq(a, rq.seqs[0]) != ei {
			continue
		}
		if rq.status/100 == 2 {
			ok += float64(len(rq.seqs))
		} else {
			failed += float64(len(rq.seqs))
		}
		for _, s := range rq.seqs {
			for _, bi := range e.batches {
				b := x.batches[bi]
				if s >= b.seqs[0] && s <= b.seqs[len(b.seqs)-1] {
					attemptedInBatch[bi] = true
				}
			}
		}
	}
	// enqueued: certainly [lo], possibly more [hi] when leading batches raced with the
	// creation of the loop.
	var lo, hi float64
	started := false
	set := x.c.AMs[a].Set
	for _, bi := range e.batches {
		n := 0
		for _, s := range x.batches[bi].seqs {
			if _, ok := c46Expect(x.c, set, s, x.clsOf[s]); ok {
				n++
			}
		}
		if x.batches[bi].member[a] == 2 || attemptedInBatch[bi] {
			started = true
		}
		if started {
			lo += float64(n)
		}
		hi += float64(n)
	}
	e.exact = lo == hi
	switch {
	case cv.qlen != 0:
		return fmt.Sprintf("AM %d: queue_length=%v at a quiescent point", a, cv.qlen)
	case cv.sent != ok:
		return fmt.Sprintf("AM %d: sent_total=%v but the Alertmanager acknowledged %v alerts with 2xx", a, cv.sent, ok)
	case cv.errors != failed:
		return fmt.Sprintf("AM %d: errors_total=%v but %v alerts were in requests answered with an error", a, cv.errors, failed)
	case cv.dropped < lo-ok || cv.dropped > hi-ok:
		return fmt.Sprintf("AM %d: dropped_total=%v but %v..%v alerts were enqueued and %v delivered, i.e. %v..%v lost (failed requests: %v alerts)", a, cv.dropped, lo, hi, ok, lo-ok, hi-ok, failed)
	}
	return ""
}

// quiesce waits until nothing is in flight and the history is complete and accounted
// for. Fast path: the invariants hold (then nothing can be pending). Slow path: the
// system is observably quiet for a long time and an invariant still fails -> violation.
func (x *c46Run) quiesce(withAccounting bool) error {
	for _, s := range x.srvs {
		s.setGate(false)
	}
	if !x.waitSettled() {
		return nil
	}
	start := time.Now()
	lastSig, same := "", 0
	sameSince := time.Now()
	polls := 0
	for {
		polls++
		problem := ""
		sig := ""
		complete := true
		var cvs map[string]c46Counters
		if withAccounting {
			cvs = x.counters()
		}
		for a, s := range x.srvs {
			reqs, comp := s.snapshot()
			if !comp {
				complete = false
			}
			sig += fmt.Sprintf("%d/%v;", len(reqs), comp)
			if err := x.checkSafety(a, reqs); err != nil {
				return err
			}
			for _, e := range x.epochs[a] {
				if msg, _ := x.completeness(e, reqs); msg != "" && problem == "" {
					problem = msg + "\n" + x.showHistory(a, reqs)
				}
			}
			if withAccounting {
				cv, present := cvs[s.url]
				sig += fmt.Sprintf("%v;", cv)
				if msg := x.accounting(a, reqs, cv, present); msg != "" && problem == "" {
					problem = "loss accounting: " + msg + "\n" + x.showHistory(a, reqs)
				}
			}
		}
		if complete && problem == "" {
			if withAccounting {
				for a := range x.srvs {
					if e := x.cur(a); e != nil && x.state[a] == c46Live && !e.tainted && e.exact {
						e.quietAt = x.clock.Add(1)
					}
				}
			}
			return nil
		}
		if sig != lastSig {
			lastSig, same, sameSince = sig, 0, time.Now()
		} else {
			same++
		}
		if complete && same >= c46QuietPolls && time.Since(sameSince) >= c46QuietMin {
			return ev.Failf("%s  (nothing in flight and no change for %.1fs / %d polls)", problem, time.Since(sameSince).Seconds(), same)
		}
		if time.Since(start) > c46Bound {
			x.why = "no quiescence: requests still in flight or counters still moving"
			return nil
		}
		if polls < 300 {
			time.Sleep(200 * time.Microsecond)
		} else {
			time.Sleep(20 * time.Millisecond)
		}
	}
}

func runC46(c c46Case, r *ev.Rec) error {
	if c.Observed != nil {
		if len(c.AMs) == 0 || len(c.SRelabel) == 0 || c.Cap < 1 {
			r.Discard()
			return nil
		}
		for _, am := range c.AMs {
			if am.Set < 0 || am.Set >= len(c.SRelabel) {
				r.Discard()
				return nil
			}
		}
		return c46Recheck(c, r)
	}
	if len(c.AMs) == 0 || len(c.SRelabel) == 0 || c.Cap < 1 {
		r.Discard()
		return nil
	}
	for _, am := range c.AMs {
		if am.Set < 0 || am.Set >= len(c.SRelabel) || len(am.Script) == 0 {
			r.Discard()
			return nil
		}
	}
	if c.Procs > 0 {
		old := runtime.GOMAXPROCS(c.Procs)
		defer runtime.GOMAXPROCS(old)
	}
	x := &c46Run{c: &c, r: r, clsOf: map[int]int{}, concRehashSet: -1}
	x.prefix = fmt.Sprintf("/h%d-%d", os.Getpid(), c46RunID.Add(1))
	x.reg = prometheus.NewRegistry()
	x.tsets = make(chan map[string][]*targetgroup.Group)
	x.runDone = make(chan struct{})
	for i, am := range c.AMs {
		s := &c46Srv{idx: i, clock: &x.clock, script: am.Script, path: x.prefix + "/api/v2/alerts"}
		s.cond = sync.NewCond(&s.mu)
		s.srv = httptest.NewServer(s)
		s.host = strings.TrimPrefix(s.srv.URL, "http://")
		s.url = s.srv.URL + s.path
		x.srvs = append(x.srvs, s)
	}
	x.state = make([]int, len(c.AMs))
	x.epochs = make([][]*c46Epoch, len(c.AMs))
	x.desired = make([]bool, len(c.AMs))
	for i := range c.SRelabel {
		x.timeouts = append(x.timeouts, 60+100*i) // distinct configs; far beyond any wait of the harness
	}
	x.mgr = notifier.NewManager(&notifier.Options{
		QueueCapacity:   c.Cap,
		MaxBatchSize:    c.MaxBatch,
		DrainOnShutdown: c.Drain,
		Registerer:      x.reg,
	}, model.UTF8Validation, promslog.NewNopLogger())
	cfg, err := x.loadConfig()
	if err != nil {
		fmt.Printf("C46 HARNESS: config does not load: %v\n%s\n", err, c46ConfigYAML(&c, x.timeouts, x.prefix))
		r.Discard()
		return nil
	}
	if err := x.mgr.ApplyConfig(cfg); err != nil {
		r.Discard()
		return nil
	}
	go func() { x.mgr.Run(x.tsets); close(x.runDone) }()
	stopped := false
	defer func() {
		for _, s := range x.srvs {
			s.forceOpen()
		}
		if !stopped {
			x.mgr.Stop()
		}
		select {
		case <-x.runDone:
		case <-time.After(c46Bound):
		}
		for _, s := range x.srvs {
			s.srv.CloseClientConnections()
			s.srv.Close()
		}
	}()
	inconclusive := func() error {
		r.Discard()
		fmt.Printf("C46 INCONCLUSIVE: %s\n", x.why)
		return nil
	}

	nQuiesce := 0
	for i := 0; i < len(c.Ops); i++ {
		op := c.Ops[i]
		switch op.Kind {
		case "send":
			if len(op.Cls) > 0 {
				x.opSend(op, -1)
			}
		case "sd":
			if !x.opSD(op) {
				return inconclusive()
			}
		case "apply":
			var next *c46Op
			if i+1 < len(c.Ops) {
				next = &c.Ops[i+1]
			}
			ok, consumed := x.opApply(op, next)
			if consumed {
				i++
			}
			if !ok {
				return inconclusive()
			}
		case "gate":
			if op.AM >= 0 && op.AM < len(x.srvs) && (x.state[op.AM] == c46Live || x.state[op.AM] == c46Adding) {
				x.srvs[op.AM].setGate(true)
			}
		case "open":
			if op.AM >= 0 && op.AM < len(x.srvs) {
				x.srvs[op.AM].setGate(false)
			}
		case "pause":
			if op.Us == 0 {
				runtime.Gosched()
			} else {
				time.Sleep(time.Duration(op.Us) * time.Microsecond)
			}
		case "quiesce":
			nQuiesce++
			if err := x.quiesce(true); err != nil {
				return err
			}
			if x.why != "" {
				return inconclusive()
			}
		}
	}
	// last quiescent point with the counters still readable
	if err := x.quiesce(true); err != nil {
		return err
	}
	if x.why != "" {
		return inconclusive()
	}
	preStop := x.counters()
	// tail: backlog at Stop
	for a, g := range c.TailGate {
		if g && a < len(x.srvs) && x.state[a] == c46Live {
			x.srvs[a].setGate(true)
		}
	}
	for _, op := range c.Tail {
		if op.Kind == "send" && len(op.Cls) > 0 {
			x.opSend(op, -1)
		}
	}
	reqsAtStop := make([]int, len(x.srvs))
	for a := range x.srvs {
		reqsAtStop[a] = x.srvs[a].nreq()
		if x.state[a] == c46Live {
			x.markEnd(a, "stop")
		}
	}
	x.mgr.Stop()
	stopped = true
	for _, s := range x.srvs {
		s.setGate(false)
	}
	select {
	case <-x.runDone:
	case <-time.After(c46Bound):
		x.why = "Run did not return after Stop"
		return inconclusive()
	}
	for a := range x.srvs {
		if x.state[a] == c46Live {
			x.endEpoch(a)
		}
	}

	// ---- final evaluation (a request of a stopped loop goroutine may still be in flight) ----
	start := time.Now()
	lastSig, same := "", 0
	sameSince := time.Now()
	for {
		problem, sig := "", ""
		complete := true
		for a, s := range x.srvs {
			reqs, comp := s.snapshot()
			if !comp {
				complete = false
			}
			sig += fmt.Sprintf("%d/%v;", len(reqs), comp)
			if err := x.checkSafety(a, reqs); err != nil {
				return err
			}
			for _, e := range x.epochs[a] {
				if msg, _ := x.completeness(e, reqs); msg != "" && problem == "" {
					problem = msg + "\n" + x.showHistory(a, reqs)
				}
			}
		}
		if complete && problem == "" {
			break
		}
		if sig != lastSig {
			lastSig, same, sameSince = sig, 0, time.Now()
		} else {
			same++
		}
		if complete && same >= c46QuietPolls && time.Since(sameSince) >= c46QuietMin {
			return ev.Failf("%s  (after Run returned; nothing in flight and no change for %.1fs / %d polls)", problem, time.Since(sameSince).Seconds(), same)
		}
		if time.Since(start) > c46Bound {
			x.why = "requests still in flight long after Run returned"
			return inconclusive()
		}
		time.Sleep(20 * time.Millisecond)
	}

	// drain happens before the loop's stop / ApplyConfig / Run returns: afterwards at most
	// the one request the loop goroutine itself had in flight may still arrive.
	overflow, failedSend, backlogAtStop, lateTotal := 0, 0, 0, 0
	for a, s := range x.srvs {
		reqs, _ := s.snapshot()
		for _, rq := range reqs {
			if rq.status/100 != 2 {
				failedSend++
			}
		}
		if len(reqs) > reqsAtStop[a] {
			backlogAtStop++
		}
		for ei, e := range x.epochs[a] {
			_, ov := x.completeness(e, reqs)
			overflow += ov
			if !e.ended {
				continue
			}
			late := 0
			for _, rq := range reqs {
				if len(rq.seqs) > 0 && x.epochOfSeq(a, rq.seqs[0]) == ei && rq.entry > e.endDone {
					late++
				}
			}
			lateTotal += late
			if late > 1 {
				return ev.Failf("AM %d: %d requests of send-loop period %d entered after its stop (%s) had completed at @%d; only the single request the loop goroutine had in flight may arrive late\n%s",
					a, late, ei, e.endKind, e.endDone, x.showHistory(a, reqs))
			}
		}
	}
	// overflow also shows in the counters of the last quiescent point
	for a, s := range x.srvs {
		if cv, ok := preStop[s.url]; ok && cv.dropped > cv.errors {
			_ = a
			r.Class("counter:dropped>errors")
		}
	}

	// ---- classes ----
	if overflow > 0 {
		r.Class("overflow")
	}
	if failedSend > 0 {
		r.Class("failed-send")
	}
	if backlogAtStop > 0 {
		if c.Drain {
			r.Class("backlog-at-stop:drained")
		} else {
			r.Class("backlog-at-stop:requests-after-stop-nodrain")
		}
	}
	if lateTotal > 0 {
		r.Class("request-entered-after-loop-stop")
	}
	nEp, nTaint, nMaybe, nRehash, nSDRemoval := 0, 0, 0, 0, 0
	for a := range x.epochs {
		for _, e := range x.epochs[a] {
			nEp++
			if e.tainted {
				nTaint++
			}
			switch e.endKind {
			case "rehash":
				nRehash++
			case "sd":
				nSDRemoval++
			}
			for _, bi := range e.batches {
				if x.batches[bi].member[a] == 1 {
					nMaybe++
				}
			}
		}
	}
	if nEp > len(c.AMs) {
		r.Class("am-readded")
	}
	if nTaint > 0 {
		r.Class("accounting-skipped:late-counter-updates-possible")
	}
	if nMaybe > 0 {
		r.Class("send-raced-with-set-change")
	}
	if nRehash > 0 {
		r.Class("loops-replaced-by-applyconfig")
	}
	if nSDRemoval > 0 {
		r.Class("am-removed-by-sd")
	}
	if nQuiesce > 0 {
		r.Class("mid-history-quiescent-point")
	}
	if c.Drain {
		r.Class("drain")
	} else {
		r.Class("nodrain")
	}
	if overflow > 0 && failedSend > 0 {
		r.NonTrivial()
	}
	return nil
}

func TestC46(t *testing.T) {
	ev.Check(t, "C46",
		"a real notifier.Manager with generated queue capacity 1-20, max batch size, drain_on_shutdown, alert relabeling (global + per Alertmanager config) and external labels; 1-3 httptest Alertmanagers with scripted 2xx/4xx/5xx answers, latency and driver-controlled gates; generated histories of Send batches (unique increasing seq label), target-set changes (AM removed/re-added, waited or racing with Sends), ApplyConfig (same config / changed config, optionally concurrent with a Send), mid-history quiescent points, a gated backlog at Stop; GOMAXPROCS drawn. Non-trivial: at least one alert was dropped by queue overflow and at least one request failed; distinct by hash of the case.",
		genC46, runC46)
}
