package iso

import (
	"context"
	"fmt"
	"math"
	"os"
	"sort"
	"strconv"
	"strings"
	"testing"
	"time"

	"github.com/prometheus/common/promslog"
	"github.com/prometheus/prometheus/model/labels"
	"github.com/prometheus/prometheus/storage"
	"github.com/prometheus/prometheus/tsdb"
	"github.com/prometheus/prometheus/util/verifhook"
	"pgregory.net/rapid"

	"verifharness/internal/ev"
)

// C05 — readers see whole transactions only.

type c05Sample struct {
	S int
	T int64
	V int
}

type c05Action struct {
	K  string // step (advance transaction Tx by one hook point) | open | drain | mmap
	Tx int    `json:",omitempty"`
	Q  int    `json:",omitempty"`
}

type c05Case struct {
	SamplesPerChunk int
	NSeries         int
	Txs             [][]c05Sample
	Actions         []c05Action
}

func genC05(t *rapid.T) c05Case {
	c := c05Case{SamplesPerChunk: rapid.SampledFrom([]int{2, 3, 4, 120}).Draw(t, "spc"), NSeries: rapid.IntRange(1, 4).Draw(t, "nseries")}
	ntx := rapid.IntRange(2, 5).Draw(t, "ntx")
	next := make([]int64, c.NSeries)
	for i := range next {
		next[i] = 1000
	}
	for i := 0; i < ntx; i++ {
		var tx []c05Sample
		n := rapid.IntRange(1, 6).Draw(t, "nsamples")
		for k := 0; k < n; k++ {
			s := rapid.IntRange(0, c.NSeries-1).Draw(t, "s")
			next[s] += int64(rapid.IntRange(1, 20).Draw(t, "dt"))
			tx = append(tx, c05Sample{S: s, T: next[s], V: i*100 + k})
		}
		c.Txs = append(c.Txs, tx)
	}
	na := rapid.IntRange(8, 50).Draw(t, "nactions")
	nq := 0
	for i := 0; i < na; i++ {
		k := rapid.IntRange(0, 9).Draw(t, "akind")
		if i < 3 && k < 5 && rapid.Bool().Draw(t, "earlyopen") {
			k = 5 // open queriers early so that they are older than most transactions
		}
		switch k {
		case 0, 1, 2, 3, 4:
			c.Actions = append(c.Actions, c05Action{K: "step", Tx: rapid.IntRange(0, ntx-1).Draw(t, "tx")})
		case 5, 6:
			c.Actions = append(c.Actions, c05Action{K: "open", Q: nq})
			nq++
		case 7:
			if nq > 0 {
				c.Actions = append(c.Actions, c05Action{K: "drain", Q: rapid.IntRange(0, nq-1).Draw(t, "q")})
			}
		case 8:
			c.Actions = append(c.Actions, c05Action{K: "step", Tx: rapid.IntRange(0, ntx-1).Draw(t, "tx")})
		default:
			c.Actions = append(c.Actions, c05Action{K: "mmap"})
		}
	}
	return c
}

type c05Tx struct {
	app      storage.Appender
	started  bool
	finished bool
	parked   chan string
	resume   chan struct{}
	done     chan error
	// committed[k]: sample k has been processed by Commit; stored[k]: it was in order then
	nDone  int
	stored []bool
	// accepted lists the indexes (into the case's sample list) of the samples the appender accepted
	accepted []int
}

type c05Querier struct {
	q       storage.Querier
	mustSee map[string]int // "series/t" -> value of transactions finished at open time
	mustNot map[string]bool
	// behindOpen: keys of mustSee samples that were committed to their series after a sample
	// of a transaction still unfinished when the querier was opened (known finding)
	behindOpen map[string]bool
	openedAt   int
	midCommit  bool
	drained    bool
}

func c05Labels(s int) labels.Labels { return labels.FromStrings("__name__", "m", "s", strconv.Itoa(s)) }

func runC05(c c05Case, rec *ev.Rec) (err error) {
	dir, e := os.MkdirTemp("", "c05")
	if e != nil {
		return nil
	}
	defer os.RemoveAll(dir)
	o := tsdb.DefaultOptions()
	o.SamplesPerChunk = c.SamplesPerChunk
	o.IsolationDisabled = false
	o.HeadChunksWriteQueueSize = 0
	o.BlockReloadInterval = 24 * time.Hour // no background reloads while the harness owns the schedule
	db, e := tsdb.Open(dir, promslog.NewNopLogger(), nil, o, nil)
	if e != nil {
		return ev.Failf("open: %v", e)
	}
	db.DisableCompactions()
	var trace []string
	fail := func(format string, a ...any) error {
		return ev.Failf("%s\nschedule:\n  %s", fmt.Sprintf(format, a...), strings.Join(trace, "\n  "))
	}
	var cur *c05Tx
	verifhook.Set(func(site string) {
		if cur == nil || !strings.HasPrefix(site, "commit.") {
			return
		}
		tx := cur
		tx.parked <- site
		<-tx.resume
	})
	txs := make([]*c05Tx, len(c.Txs))
	queriers := map[int]*c05Querier{}
	defer func() {
		// let every parked commit run to completion, close everything
		verifhook.Set(nil)
		for _, tx := range txs {
			if tx == nil {
				continue
			}
			if tx.started && !tx.finished {
				for !tx.finished {
					tx.resume <- struct{}{}
					select {
					case <-tx.parked:
					case <-tx.done:
						tx.finished = true
					case <-time.After(30 * time.Second):
						tx.finished = true
					}
				}
			} else if !tx.started && tx.app != nil {
				_ = tx.app.Rollback()
			}
		}
		for _, q := range queriers {
			if !q.drained {
				q.q.Close()
			}
		}
		db.Close()
	}()
	ctx := context.Background()
	// a transaction's appender is created (and its samples appended) at its first step, so
	// that appenders are also created while queriers are open
	for i, samples := range c.Txs {
		txs[i] = &c05Tx{parked: make(chan string), resume: make(chan struct{}), done: make(chan error, 1), stored: make([]bool, len(samples))}
	}
	begin := func(i int) error {
		tx := txs[i]
		tx.app = db.Appender(ctx)
		for k, s := range c.Txs[i] {
			if _, e := tx.app.Append(0, c05Labels(s.S), s.T, float64(s.V)); e != nil {
				// made out of order by a transaction that was created later but committed earlier:
				// the sample is simply not part of this transaction
				trace = append(trace, fmt.Sprintf("tx %d: append %+v rejected: %v", i, s, e))
				continue
			}
			tx.accepted = append(tx.accepted, k)
		}
		trace = append(trace, fmt.Sprintf("tx %d: appender created, %d samples appended", i, len(c.Txs[i])))
		return nil
	}
	seriesMax := map[int]int64{}
	type commitEv struct {
		tx int
		t  int64
	}
	commitLog := map[int][]commitEv{}
	noteSample := func(i int) {
		tx := txs[i]
		if tx.nDone >= len(tx.accepted) {
			return
		}
		idx := tx.accepted[tx.nDone]
		s := c.Txs[i][idx]
		if m, ok := seriesMax[s.S]; !ok || s.T > m {
			tx.stored[idx] = true
			seriesMax[s.S] = s.T
			commitLog[s.S] = append(commitLog[s.S], commitEv{i, s.T})
		}
		tx.nDone++
	}
	wait := func(i int) error {
		tx := txs[i]
		select {
		case site := <-tx.parked:
			if site == "commit.sample" {
				noteSample(i)
			}
			trace = append(trace, fmt.Sprintf("tx %d parked at %s (%d/%d samples committed)", i, site, tx.nDone, len(c.Txs[i])))
		case e := <-tx.done:
			tx.finished = true
			cur = nil
			trace = append(trace, fmt.Sprintf("tx %d Commit returned %v", i, e))
			if e != nil {
				return fail("Commit of tx %d: %v", i, e)
			}
		case <-time.After(60 * time.Second):
			rec.Discard()
			return fmt.Errorf("stuck")
		}
		return nil
	}
	chunkEvent := false
	actions := append([]c05Action(nil), c.Actions...)
	for qi := 0; qi < len(c.Actions); qi++ {
		actions = append(actions, c05Action{K: "drain", Q: qi}) // whatever is still open is read at the end
	}
	for step, a := range actions {
		switch a.K {
		case "step":
			tx := txs[a.Tx]
			if tx.finished {
				continue
			}
			if tx.app == nil {
				if e := begin(a.Tx); e != nil {
					return e
				}
				continue
			}
			cur = tx
			if !tx.started {
				tx.started = true
				go func() { tx.done <- tx.app.Commit() }()
			} else {
				tx.resume <- struct{}{}
			}
			if e := wait(a.Tx); e != nil {
				if e.Error() == "stuck" {
					return nil
				}
				return e
			}
			cur = nil
		case "mmap":
			db.ForceHeadMMap()
			chunkEvent = true
			trace = append(trace, "ForceHeadMMap")
		case "open":
			q, e := db.Querier(math.MinInt64, math.MaxInt64)
			if e != nil {
				return fail("Querier: %v", e)
			}
			cq := &c05Querier{q: q, mustSee: map[string]int{}, mustNot: map[string]bool{}, behindOpen: map[string]bool{}, openedAt: step}
			for si, evs := range commitLog {
				open := false
				for _, e := range evs {
					if !txs[e.tx].finished {
						open = true
					} else if open {
						cq.behindOpen[fmt.Sprintf("%d/%d", si, e.t)] = true
					}
				}
			}
			for i, tx := range txs {
				for k, s := range c.Txs[i] {
					key := fmt.Sprintf("%d/%d", s.S, s.T)
					switch {
					case tx.finished && tx.stored[k]:
						cq.mustSee[key] = s.V
					case !tx.finished:
						cq.mustNot[key] = true
					}
				}
				if tx.started && !tx.finished && tx.nDone > 0 {
					cq.midCommit = true
				}
			}
			queriers[a.Q] = cq
			trace = append(trace, fmt.Sprintf("open querier %d (must see %d samples, must not see %d)", a.Q, len(cq.mustSee), len(cq.mustNot)))
		case "drain":
			cq := queriers[a.Q]
			if cq == nil || cq.drained {
				continue
			}
			cq.drained = true
			seen := map[string]int{}
			ss := cq.q.Select(ctx, true, nil, labels.MustNewMatcher(labels.MatchEqual, "__name__", "m"))
			for ss.Next() {
				sr := ss.At()
				si, _ := strconv.Atoi(sr.Labels().Get("s"))
				it := sr.Iterator(nil)
				for it.Next() != 0 {
					t, v := it.At()
					seen[fmt.Sprintf("%d/%d", si, t)] = int(v)
				}
				if it.Err() != nil {
					cq.q.Close()
					return fail("iterator: %v", it.Err())
				}
			}
			e := ss.Err()
			cq.q.Close()
			if e != nil {
				return fail("select: %v", e)
			}
			trace = append(trace, fmt.Sprintf("drain querier %d (opened at action %d) -> %d samples", a.Q, cq.openedAt, len(seen)))
			var keys []string
			for k := range cq.mustSee {
				keys = append(keys, k)
			}
			sort.Strings(keys)
			for _, k := range keys {
				if v, ok := seen[k]; !ok || v != cq.mustSee[k] {
					sig := ""
					// known finding: a committed sample behind an uncommitted earlier sample of the same series
					if cq.behindOpen[k] {
						sig = "committed-sample-hidden-behind-open-transaction-in-same-series"
					}
					msg := fail("querier %d: sample series/t=%s of a transaction whose Commit had returned before the querier was opened is missing (got %v, present=%v)", a.Q, k, v, ok)
					if sig != "" {
						return ev.FailSig(sig, "%s", msg.Error())
					}
					return msg
				}
			}
			for k := range seen {
				if cq.mustNot[k] {
					return fail("querier %d: sample series/t=%s of a transaction that had not finished when the querier was opened is visible", a.Q, k)
				}
			}
			if cq.midCommit || chunkEvent {
				rec.NonTrivial()
			}
			if cq.midCommit {
				rec.Class("querier-opened-mid-commit")
			}
		}
	}
	return nil
}

func TestC05(t *testing.T) {
	ev.Check(t, "C05",
		"2-4 transactions over 1-4 series (1-6 in-order float samples each, shared series) are appended, then a drawn schedule advances one Commit at a time from hook point to hook point (after the WAL write, after each committed sample, after all samples) while queriers are opened, drained later and ForceHeadMMap is called; exactly one goroutine runs at a time. A querier must return every stored sample of transactions whose Commit had returned when it was opened and no sample of any other transaction. Non-trivial: a querier was opened while a Commit was parked between two of its samples, or an m-map happened.",
		genC05, runC05)
}
