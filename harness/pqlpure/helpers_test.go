package pqlpure

import (
	"context"
	"sort"
	"sync"
	"time"

	"github.com/prometheus/prometheus/model/histogram"
	"github.com/prometheus/prometheus/model/labels"
	"github.com/prometheus/prometheus/promql"
	"github.com/prometheus/prometheus/promql/parser"
	"github.com/prometheus/prometheus/storage"
	"github.com/prometheus/prometheus/tsdb/chunkenc"
	"github.com/prometheus/prometheus/tsdb/chunks"
	"github.com/prometheus/prometheus/util/annotations"
)

// In-memory storage.Queryable for engine runs of the pure-function checks: a list of
// series with explicit samples, no TSDB.

type memSample struct {
	t  int64
	f  float64
	fh *histogram.FloatHistogram
}

func (s memSample) T() int64                      { return s.t }
func (s memSample) ST() int64                     { return 0 }
func (s memSample) F() float64                    { return s.f }
func (s memSample) H() *histogram.Histogram       { return nil }
func (s memSample) FH() *histogram.FloatHistogram { return s.fh }
func (s memSample) Type() chunkenc.ValueType {
	if s.fh != nil {
		return chunkenc.ValFloatHistogram
	}
	return chunkenc.ValFloat
}

func (s memSample) Copy() chunks.Sample {
	c := s
	if s.fh != nil {
		c.fh = s.fh.Copy()
	}
	return c
}

type memSeries struct {
	lset    labels.Labels
	samples []chunks.Sample
}

type memQueryable struct{ series []memSeries }

func (q *memQueryable) add(ls labels.Labels, samples ...memSample) {
	ss := make([]chunks.Sample, len(samples))
	for i, s := range samples {
		ss[i] = s
	}
	q.series = append(q.series, memSeries{lset: ls, samples: ss})
}

func (q *memQueryable) Querier(_, _ int64) (storage.Querier, error) { return memQuerier{q}, nil }

type memQuerier struct{ q *memQueryable }

func (memQuerier) LabelValues(context.Context, string, *storage.LabelHints, ...*labels.Matcher) ([]string, annotations.Annotations, error) {
	return nil, nil, nil
}

func (memQuerier) LabelNames(context.Context, *storage.LabelHints, ...*labels.Matcher) ([]string, annotations.Annotations, error) {
	return nil, nil, nil
}
func (memQuerier) Close() error { return nil }

func (m memQuerier) Select(_ context.Context, _ bool, _ *storage.SelectHints, matchers ...*labels.Matcher) storage.SeriesSet {
	var out []storage.Series
outer:
	for _, s := range m.q.series {
		for _, mt := range matchers {
			if !mt.Matches(s.lset.Get(mt.Name)) {
				continue outer
			}
		}
		out = append(out, storage.NewListSeries(s.lset, s.samples))
	}
	sort.Slice(out, func(i, j int) bool { return labels.Compare(out[i].Labels(), out[j].Labels()) < 0 })
	return &memSeriesSet{series: out, i: -1}
}

type memSeriesSet struct {
	series []storage.Series
	i      int
}

func (s *memSeriesSet) Next() bool                      { s.i++; return s.i < len(s.series) }
func (s *memSeriesSet) At() storage.Series              { return s.series[s.i] }
func (*memSeriesSet) Err() error                        { return nil }
func (*memSeriesSet) Warnings() annotations.Annotations { return nil }

var (
	engineOnce sync.Once
	engine     *promql.Engine
)

// testEngine is one shared engine with every optional syntax feature enabled.
func testEngine() *promql.Engine {
	engineOnce.Do(func() {
		engine = promql.NewEngine(promql.EngineOpts{
			MaxSamples:               10_000_000,
			Timeout:                  100 * time.Second,
			NoStepSubqueryIntervalFn: func(int64) int64 { return 60_000 },
			EnableAtModifier:         true,
			EnableNegativeOffset:     true,
			LookbackDelta:            5 * time.Minute,
			Parser: parser.NewParser(parser.Options{EnableExperimentalFunctions: true, ExperimentalDurationExpr: true,
				EnableExtendedRangeSelectors: true, EnableBinopFillModifiers: true}),
		})
	})
	return engine
}

// instant evaluates an instant query at tsMillis.
func instant(q storage.Queryable, query string, tsMillis int64) *promql.Result {
	qry, err := testEngine().NewInstantQuery(context.Background(), q, nil, query, time.UnixMilli(tsMillis))
	if err != nil {
		return &promql.Result{Err: err}
	}
	defer qry.Close()
	return qry.Exec(context.Background())
}
