package pqlpure

import (
	"fmt"
	"math"
	"math/big"
	"sort"
	"testing"

	"github.com/prometheus/prometheus/model/histogram"
	"pgregory.net/rapid"

	"verifharness/internal/ev"
	"verifharness/internal/gen"
)

// C31 — native histogram arithmetic preserves bucket semantics.
//
// Reference model: a histogram is (schema | custom bounds, zero threshold, zero count,
// count, sum, sign x index -> count) with exact (big.Float) counts, read off the spans
// directly (gen.BucketMap), never through the library's iterators.

type c31Case struct {
	Op     string     // add sub kahan compact reduce copyschema tofloat detectreset
	Hs     []gen.Hist // operands: add/sub 2, kahan 2..5, detectreset prev + (curr | delta), others 1
	Scales []uint64   // float64 bits: factor applied to every count of operand i
	N      int        // compact: maxEmptyBuckets; reduce/copyschema: schema decrement (>=1)
	Derive bool       // detectreset: curr = prev + Hs[1] laid out afresh, then Tweak
	Tweak  string     // detectreset/derive: none dec-bucket drop-bucket dec-zero dec-count inc-schema dec-schema widen-zt narrow-zt
	TweakI int
}

type hmodel struct {
	custom    bool
	cv        []float64
	schema    int32
	zt        float64
	zc, count *big.Float
	sum       float64
	pos, neg  map[int32]*big.Float
}

func bf(f float64) *big.Float { return new(big.Float).SetPrec(300).SetFloat64(f) }

func bmapOf(spans []histogram.Span, buckets []float64) map[int32]*big.Float {
	m := map[int32]*big.Float{}
	for k, v := range gen.BucketMap(spans, buckets) {
		m[k] = bf(v)
	}
	return m
}

func modelOf(h *histogram.FloatHistogram) hmodel {
	m := hmodel{custom: h.UsesCustomBuckets(), schema: h.Schema, zt: h.ZeroThreshold, zc: bf(h.ZeroCount), count: bf(h.Count), sum: h.Sum,
		pos: bmapOf(h.PositiveSpans, h.PositiveBuckets), neg: bmapOf(h.NegativeSpans, h.NegativeBuckets)}
	if m.custom {
		m.cv = append([]float64{}, h.CustomValues...)
		m.zt = 0
		m.zc = bf(0)
		m.neg = map[int32]*big.Float{}
	}
	return m
}

// expUpper is the upper bound of exponential bucket idx: 2^(idx * 2^-schema).
func expUpper(idx, schema int32) float64 {
	return math.Exp2(float64(idx) * math.Exp2(float64(-schema)))
}
func expLower(idx, schema int32) float64 { return expUpper(idx-1, schema) }

func relEq(a, b, rel float64) bool {
	if a == b {
		return true
	}
	return math.Abs(a-b) <= rel*math.Max(math.Abs(a), math.Abs(b))
}

// leq / less with a relative tolerance: bucket bounds are computed independently of the library.
func boundLE(a, b float64) bool { return a <= b || relEq(a, b, 1e-12) }
func boundLT(a, b float64) bool { return a < b && !relEq(a, b, 1e-12) }

func mapIdx(idx, from, to int32) int32 {
	if from == to {
		return idx
	}
	return int32(math.Ceil(float64(idx) / math.Exp2(float64(from-to))))
}

func sortedKeys(m map[int32]*big.Float) []int32 {
	ks := make([]int32, 0, len(m))
	for k := range m {
		ks = append(ks, k)
	}
	sort.Slice(ks, func(i, j int) bool { return ks[i] < ks[j] })
	return ks
}

// raiseThreshold returns the least T' >= t that does not lie strictly inside a populated
// bucket of m (absolute values), and whether it had to move.
func (m hmodel) raiseThreshold(t float64) float64 {
	for {
		moved := false
		for _, side := range []map[int32]*big.Float{m.pos, m.neg} {
			for _, k := range sortedKeys(side) {
				if side[k].Sign() == 0 {
					continue
				}
				lo, up := expLower(k, m.schema), expUpper(k, m.schema)
				if boundLT(lo, t) && boundLT(t, up) {
					t = up
					moved = true
				}
			}
		}
		if !moved {
			return t
		}
	}
}

// withThresholdAndSchema maps m to a wider zero bucket t and a lower-or-equal schema:
// buckets with |upper| <= t go to the zero bucket, the others to index ceil(idx/2^d).
func (m hmodel) withThresholdAndSchema(t float64, schema int32) hmodel {
	o := hmodel{schema: schema, zt: t, zc: new(big.Float).Copy(m.zc), count: m.count, sum: m.sum, pos: map[int32]*big.Float{}, neg: map[int32]*big.Float{}}
	mv := func(src, dst map[int32]*big.Float) {
		for k, v := range src {
			if t > 0 && boundLE(expUpper(k, m.schema), t) {
				o.zc.Add(o.zc, v)
				continue
			}
			nk := mapIdx(k, m.schema, schema)
			if dst[nk] == nil {
				dst[nk] = bf(0)
			}
			dst[nk].Add(dst[nk], v)
		}
	}
	mv(m.pos, o.pos)
	mv(m.neg, o.neg)
	return o
}

func intersectBounds(a, b []float64) []float64 {
	var out []float64
	for _, x := range a {
		for _, y := range b {
			if x == y {
				out = append(out, x)
			}
		}
	}
	return out
}

func boundsEq(a, b []float64) bool {
	if len(a) != len(b) {
		return false
	}
	for i := range a {
		if a[i] != b[i] {
			return false
		}
	}
	return true
}

// toBounds maps a custom-bucket model onto a subset of its bounds: the mass of a bucket
// whose upper bound was removed merges upward into the next remaining bound (or +Inf).
func (m hmodel) toBounds(cv []float64) hmodel {
	o := hmodel{custom: true, cv: cv, schema: m.schema, zc: bf(0), count: m.count, sum: m.sum, pos: map[int32]*big.Float{}, neg: map[int32]*big.Float{}}
	for k, v := range m.pos {
		up := math.Inf(1)
		if int(k) < len(m.cv) {
			up = m.cv[k]
		}
		nk := int32(len(cv))
		for j, b := range cv {
			if b >= up {
				nk = int32(j)
				break
			}
		}
		if o.pos[nk] == nil {
			o.pos[nk] = bf(0)
		}
		o.pos[nk].Add(o.pos[nk], v)
	}
	return o
}

// combine is the reference for a (+|-) b: returns the expected model. sign is +1 or -1.
func combine(a, b hmodel, sign int) hmodel { return combineT(a, b, sign, -1) }

// predictThreshold is the least common zero threshold >= both that is not strictly
// inside a populated bucket of either operand (each at its own schema). negRaised
// reports whether a populated negative bucket forced a raise.
func predictThreshold(a, b hmodel) (t float64, negRaised bool) {
	t = math.Max(a.zt, b.zt)
	for {
		an, bn := a, b
		an.pos, bn.pos = nil, nil
		if an.raiseThreshold(t) != t || bn.raiseThreshold(t) != t {
			negRaised = true
		}
		t2 := b.raiseThreshold(a.raiseThreshold(t))
		if t2 == t {
			return t, negRaised
		}
		t = t2
	}
}

// combineT is combine with the common zero threshold given (tGiven >= 0) instead of predicted.
func combineT(a, b hmodel, sign int, tGiven float64) hmodel {
	addMaps := func(x, y map[int32]*big.Float) map[int32]*big.Float {
		o := map[int32]*big.Float{}
		for k, v := range x {
			o[k] = new(big.Float).Copy(v)
		}
		for k, v := range y {
			if o[k] == nil {
				o[k] = bf(0)
			}
			if sign > 0 {
				o[k].Add(o[k], v)
			} else {
				o[k].Sub(o[k], v)
			}
		}
		return o
	}
	pm := func(x, y *big.Float) *big.Float {
		if sign > 0 {
			return new(big.Float).Add(x, y)
		}
		return new(big.Float).Sub(x, y)
	}
	var ra, rb hmodel
	if a.custom {
		cv := a.cv
		if !boundsEq(a.cv, b.cv) {
			cv = intersectBounds(a.cv, b.cv)
		}
		ra, rb = a.toBounds(cv), b.toBounds(cv)
	} else {
		schema := min(a.schema, b.schema)
		t := tGiven
		if t < 0 {
			t, _ = predictThreshold(a, b)
		}
		ra, rb = a.withThresholdAndSchema(t, schema), b.withThresholdAndSchema(t, schema)
	}
	o := ra
	o.pos, o.neg = addMaps(ra.pos, rb.pos), addMaps(ra.neg, rb.neg)
	o.zc = pm(ra.zc, rb.zc)
	o.count = pm(a.count, b.count)
	if sign > 0 {
		o.sum = a.sum + b.sum
	} else {
		o.sum = a.sum - b.sum
	}
	return o
}

func bigAbsSum(vs ...*big.Float) *big.Float {
	s := bf(0)
	for _, v := range vs {
		s.Add(s, new(big.Float).Abs(v))
	}
	return s
}

// near reports |got-want| <= rel*scale.
func near(got, want, scale *big.Float, rel float64) bool {
	d := new(big.Float).Sub(got, want)
	d.Abs(d)
	lim := new(big.Float).Mul(bf(rel), scale)
	return d.Cmp(lim) <= 0
}

// cmpModel compares the expected model with what the library produced. rel is relative
// to the total mass (sum of absolute counts) involved.
func cmpModel(want, got hmodel, mass *big.Float, rel float64) string {
	if want.custom != got.custom {
		return fmt.Sprintf("bucket type: want custom=%v got custom=%v", want.custom, got.custom)
	}
	if want.custom {
		if !boundsEq(want.cv, got.cv) {
			return fmt.Sprintf("custom bounds: want %v got %v", want.cv, got.cv)
		}
	} else {
		if want.schema != got.schema {
			return fmt.Sprintf("schema: want %d got %d", want.schema, got.schema)
		}
		if !relEq(want.zt, got.zt, 1e-12) {
			return fmt.Sprintf("zero threshold: want %g got %g", want.zt, got.zt)
		}
		if !near(got.zc, want.zc, mass, rel) {
			return fmt.Sprintf("zero count: want %s got %s", want.zc.Text('g', 20), got.zc.Text('g', 20))
		}
	}
	for name, pair := range map[string][2]map[int32]*big.Float{"positive": {want.pos, got.pos}, "negative": {want.neg, got.neg}} {
		keys := map[int32]bool{}
		for k := range pair[0] {
			keys[k] = true
		}
		for k := range pair[1] {
			keys[k] = true
		}
		for k := range keys {
			w, g := pair[0][k], pair[1][k]
			if w == nil {
				w = bf(0)
			}
			if g == nil {
				g = bf(0)
			}
			if !near(g, w, mass, rel) {
				return fmt.Sprintf("%s bucket %d: want %s got %s", name, k, w.Text('g', 20), g.Text('g', 20))
			}
		}
	}
	return ""
}

func (m hmodel) mass() *big.Float {
	s := bigAbsSum(m.zc)
	for _, v := range m.pos {
		s.Add(s, new(big.Float).Abs(v))
	}
	for _, v := range m.neg {
		s.Add(s, new(big.Float).Abs(v))
	}
	return s
}

// layout writes a bucket map as spans + absolute float buckets (contiguous runs, no empty buckets).
func layout(m map[int32]*big.Float) ([]histogram.Span, []float64) {
	var spans []histogram.Span
	var buckets []float64
	last := int32(0)
	for i, k := range sortedKeys(m) {
		v, _ := m[k].Float64()
		switch {
		case i == 0:
			spans = append(spans, histogram.Span{Offset: k, Length: 1})
		case k == last+1:
			spans[len(spans)-1].Length++
		default:
			spans = append(spans, histogram.Span{Offset: k - last - 1, Length: 1})
		}
		buckets = append(buckets, v)
		last = k
	}
	return spans, buckets
}

func (m hmodel) build() *histogram.FloatHistogram {
	h := &histogram.FloatHistogram{Schema: m.schema, ZeroThreshold: m.zt, Sum: m.sum}
	h.ZeroCount, _ = m.zc.Float64()
	h.Count, _ = m.count.Float64()
	h.PositiveSpans, h.PositiveBuckets = layout(m.pos)
	h.NegativeSpans, h.NegativeBuckets = layout(m.neg)
	if m.custom {
		h.Schema = histogram.CustomBucketsSchema
		h.CustomValues = m.cv
		h.ZeroThreshold, h.ZeroCount = 0, 0
	}
	return h
}

// ---- generation ----

var c31Ops = []string{"add", "add", "sub", "kahan", "compact", "reduce", "copyschema", "tofloat", "detectreset", "detectreset"}
var c31Tweaks = []string{"none", "none", "dec-bucket", "drop-bucket", "dec-zero", "dec-count", "inc-schema", "dec-schema", "widen-zt", "narrow-zt", "inc-bucket", "cut-zt"}

// fixZT keeps the zero bucket from overlapping the histogram's own buckets: if the
// drawn threshold exceeds the lower bound of the innermost bucket it is replaced by the
// largest power of two not above that bound (a bucket boundary in every schema >= 0).
func fixZT(h gen.Hist) gen.Hist {
	if h.Schema == histogram.CustomBucketsSchema {
		return h
	}
	minExp := math.Inf(1)
	for _, sp := range [][]gen.Span{h.PS, h.NS} {
		if len(sp) > 0 {
			e := float64(sp[0].Off-1) * math.Exp2(float64(-h.Schema))
			minExp = math.Min(minExp, e)
		}
	}
	zt := gen.F(h.ZT)
	if !math.IsInf(minExp, 1) && zt > math.Exp2(minExp) {
		h.ZT = gen.B(math.Exp2(math.Floor(minExp)))
	}
	return h
}

func genBounds(t *rapid.T, label string) []uint64 {
	grid := []float64{-10, -2.5, -1, 0, 0.25, 0.5, 1, 2.5, 5, 10, 100}
	var out []uint64
	for _, g := range grid {
		if rapid.IntRange(0, 2).Draw(t, label) > 0 {
			out = append(out, gen.B(g))
		}
	}
	if out == nil {
		out = []uint64{}
	}
	return out
}

func genC31Hist(t *rapid.T, label string, schema *int32, custom []uint64, fractional bool, maxCount int64) gen.Hist {
	o := gen.HistOpts{Float: true, AllowGauge: true, FractionalCounts: fractional, Schema: schema, Custom: custom, MaxCount: maxCount}
	return fixZT(gen.Histogram(o).Draw(t, label))
}

func genC31(t *rapid.T) c31Case {
	c := c31Case{Op: rapid.SampledFrom(c31Ops).Draw(t, "op")}
	scales := []float64{1, 1, 1, 0.1, 0.001, math.Exp2(54), 3}
	customSchema := int32(histogram.CustomBucketsSchema)
	drawSchema := func(l string) *int32 {
		s := rapid.Int32Range(-4, 8).Draw(t, l)
		return &s
	}
	switch c.Op {
	case "add", "sub", "kahan":
		n := 2
		if c.Op == "kahan" {
			n = rapid.IntRange(2, 5).Draw(t, "nops")
		}
		custom := rapid.IntRange(0, 3).Draw(t, "custom") == 0
		var base *int32
		if rapid.Bool().Draw(t, "sameschema") {
			base = drawSchema("schema")
		}
		var baseCV []uint64
		if custom && rapid.Bool().Draw(t, "samebounds") {
			baseCV = genBounds(t, "cv")
		}
		for i := 0; i < n; i++ {
			switch {
			case custom:
				cv := baseCV
				if cv == nil {
					cv = genBounds(t, "cv")
				}
				c.Hs = append(c.Hs, genC31Hist(t, "h", &customSchema, cv, true, 0))
			case base != nil:
				c.Hs = append(c.Hs, genC31Hist(t, "h", base, nil, true, 0))
			default:
				c.Hs = append(c.Hs, genC31Hist(t, "h", drawSchema("schema"), nil, true, 0))
			}
			c.Scales = append(c.Scales, gen.B(rapid.SampledFrom(scales).Draw(t, "scale")))
		}
	case "compact":
		c.Hs = []gen.Hist{genC31Hist(t, "h", nil, nil, true, 0)}
		if rapid.IntRange(0, 3).Draw(t, "custom") == 0 {
			c.Hs[0] = genC31Hist(t, "h", &customSchema, nil, true, 0)
		}
		c.N = rapid.IntRange(0, 4).Draw(t, "maxempty")
		c.Scales = []uint64{gen.B(1)}
	case "reduce", "copyschema":
		c.Hs = []gen.Hist{genC31Hist(t, "h", nil, nil, true, 0)}
		c.N = rapid.IntRange(0, 6).Draw(t, "dschema")
		c.Scales = []uint64{gen.B(rapid.SampledFrom(scales).Draw(t, "scale"))}
	case "tofloat":
		o := gen.HistOpts{AllowCustom: true, AllowGauge: true, NaNSum: true}
		if rapid.IntRange(0, 3).Draw(t, "big") == 0 {
			o.MaxCount = 1 << 50
		}
		c.Hs = []gen.Hist{gen.Histogram(o).Draw(t, "h")}
	case "detectreset":
		sc := gen.B(rapid.SampledFrom([]float64{1, 1, 0.5, 1.5, math.Exp2(54)}).Draw(t, "scale"))
		c.Scales = []uint64{sc, sc}
		switch rapid.IntRange(0, 9).Draw(t, "drkind") {
		case 0: // independent pair, any types
			var s1, s2 *int32
			if rapid.IntRange(0, 3).Draw(t, "c1") == 0 {
				s1 = &customSchema
			}
			if rapid.IntRange(0, 3).Draw(t, "c2") == 0 {
				s2 = &customSchema
			}
			c.Hs = []gen.Hist{genC31Hist(t, "prev", s1, nil, false, 0), genC31Hist(t, "curr", s2, nil, false, 0)}
		case 1: // identical
			h := genC31Hist(t, "prev", nil, nil, false, 0)
			c.Hs = []gen.Hist{h, h}
		default: // curr derived from prev + delta, then tweaked
			c.Derive = true
			custom := rapid.IntRange(0, 3).Draw(t, "custom") == 0
			if custom {
				c.Hs = []gen.Hist{genC31Hist(t, "prev", &customSchema, genBounds(t, "cv"), false, 0), genC31Hist(t, "delta", &customSchema, genBounds(t, "cv"), false, 0)}
				if rapid.Bool().Draw(t, "samebounds") {
					c.Hs[1] = genC31Hist(t, "delta", &customSchema, c.Hs[0].CV, false, 0)
				}
			} else {
				ps := drawSchema("schema")
				ds := ps
				if rapid.Bool().Draw(t, "deltaschema") {
					ds = drawSchema("dschema")
				}
				c.Hs = []gen.Hist{genC31Hist(t, "prev", ps, nil, false, 0), genC31Hist(t, "delta", ds, nil, false, 0)}
			}
			c.Tweak = rapid.SampledFrom(c31Tweaks).Draw(t, "tweak")
			c.TweakI = rapid.IntRange(0, 40).Draw(t, "tweaki")
		}
	}
	return c
}

func scaled(h gen.Hist, scaleBits uint64) *histogram.FloatHistogram {
	f := h.FloatH()
	s := gen.F(scaleBits)
	if s == 1 || s == 0 {
		return f
	}
	f.ZeroCount *= s
	f.Count *= s
	for i := range f.PositiveBuckets {
		f.PositiveBuckets[i] *= s
	}
	for i := range f.NegativeBuckets {
		f.NegativeBuckets[i] *= s
	}
	return f
}

func (c c31Case) operand(i int) *histogram.FloatHistogram {
	sc := gen.B(1)
	if i < len(c.Scales) {
		sc = c.Scales[i]
	}
	return scaled(c.Hs[i], sc)
}

func populated(m hmodel) int {
	n := 0
	for _, v := range m.pos {
		if v.Sign() != 0 {
			n++
		}
	}
	for _, v := range m.neg {
		if v.Sign() != 0 {
			n++
		}
	}
	return n
}

// pairNonTrivial: the pair differs in schema or zero threshold or custom bounds, or has
// overlapping populated buckets.
func pairNonTrivial(a, b hmodel) bool {
	if a.custom != b.custom {
		return true
	}
	if a.custom {
		if !boundsEq(a.cv, b.cv) {
			return populated(a) > 0 && populated(b) > 0
		}
	} else if a.schema != b.schema || a.zt != b.zt {
		return populated(a) > 0 && populated(b) > 0
	}
	for k, v := range a.pos {
		if w := b.pos[k]; w != nil && v.Sign() != 0 && w.Sign() != 0 {
			return true
		}
	}
	for k, v := range a.neg {
		if w := b.neg[k]; w != nil && v.Sign() != 0 && w.Sign() != 0 {
			return true
		}
	}
	return false
}

// onSchemaBoundary reports whether t is a bucket boundary of the schema.
func onSchemaBoundary(t float64, schema int32) bool {
	if t == 0 {
		return true
	}
	e := math.Log2(t) * math.Exp2(float64(schema))
	return math.Abs(e-math.Round(e)) < 1e-9
}

func runC31(c c31Case, r *ev.Rec) error {
	r.Class("op:" + c.Op)
	for i := range c.Hs {
		if c.Op == "tofloat" {
			if err := c.Hs[i].Int().Validate(); err != nil {
				r.Discard()
				return nil
			}
			continue
		}
		if err := c.operand(i).Validate(); err != nil {
			// generator self-check: only valid histograms are in the domain
			r.Class("invalid-generated")
			r.Discard()
			return nil
		}
	}
	switch c.Op {
	case "add", "sub":
		return runC31AddSub(c, r)
	case "kahan":
		return runC31Kahan(c, r)
	case "compact":
		h := c.operand(0)
		want := modelOf(h)
		got := h.Compact(c.N)
		if got != h {
			return ev.Failf("Compact did not return its receiver")
		}
		if err := got.Validate(); err != nil {
			return ev.Failf("Compact(%d) of %v produced an invalid histogram: %v", c.N, c.operand(0), err)
		}
		if d := cmpModel(want, modelOf(got), want.mass(), 0); d != "" {
			return ev.Failf("Compact(%d) changed a bucket total: %s\n in  %v\n out %v", c.N, d, c.operand(0), got)
		}
		if got.Count != c.operand(0).Count || gen.B(got.Sum) != gen.B(c.operand(0).Sum) {
			return ev.Failf("Compact changed count or sum")
		}
		if c.N == 0 {
			// "eliminates empty buckets at the beginning and end of each span, merges consecutive spans"
			for _, side := range []struct {
				s []histogram.Span
				b []float64
			}{{got.PositiveSpans, got.PositiveBuckets}, {got.NegativeSpans, got.NegativeBuckets}} {
				bi := 0
				for i, sp := range side.s {
					if sp.Length == 0 {
						return ev.Failf("Compact(0) left an empty span: %v", got)
					}
					if i > 0 && sp.Offset == 0 {
						return ev.Failf("Compact(0) left adjacent spans unmerged: %v", got)
					}
					if side.b[bi] == 0 || side.b[bi+int(sp.Length)-1] == 0 {
						return ev.Failf("Compact(0) left an empty bucket at a span edge: %v", got)
					}
					bi += int(sp.Length)
				}
			}
		}
		if len(c.operand(0).PositiveBuckets)+len(c.operand(0).NegativeBuckets) > populated(want) {
			r.NonTrivial()
		}
		return nil
	case "reduce", "copyschema":
		h := c.operand(0)
		orig := c.operand(0)
		m := modelOf(h)
		target := h.Schema - int32(c.N)
		if target < -4 {
			target = -4
		}
		want := m.withThresholdAndSchema(0, target)
		want.zt, want.zc = m.zt, m.zc
		var got *histogram.FloatHistogram
		if c.Op == "reduce" {
			err := h.ReduceResolution(target)
			if target >= orig.Schema {
				if err == nil {
					return ev.Failf("ReduceResolution(%d) of schema %d did not fail", target, orig.Schema)
				}
				return nil
			}
			if err != nil {
				return ev.Failf("ReduceResolution(%d) of %v failed: %v", target, orig, err)
			}
			got = h
		} else {
			got = h.CopyToSchema(target)
			if d := gen.FloatHistExact(orig, h); d != "" {
				return ev.Failf("CopyToSchema(%d) modified its receiver (%s)", target, d)
			}
		}
		if err := got.Validate(); err != nil {
			return ev.Failf("%s to schema %d of %v produced an invalid histogram: %v", c.Op, target, orig, err)
		}
		if d := cmpModel(want, modelOf(got), m.mass(), 1e-13); d != "" {
			return ev.Failf("%s from schema %d to %d: %s\n in  %v\n out %v", c.Op, orig.Schema, target, d, orig, got)
		}
		if gen.B(got.Count) != gen.B(orig.Count) || gen.B(got.Sum) != gen.B(orig.Sum) || gen.B(got.ZeroCount) != gen.B(orig.ZeroCount) {
			return ev.Failf("%s changed count, sum or zero count", c.Op)
		}
		if target < orig.Schema && populated(m) >= 2 {
			r.NonTrivial()
		}
		return nil
	case "tofloat":
		ih := c.Hs[0].Int()
		fh := ih.ToFloat(nil)
		if fh.Schema != ih.Schema || gen.B(fh.ZeroThreshold) != gen.B(ih.ZeroThreshold) && !ih.UsesCustomBuckets() || fh.Count != float64(ih.Count) || gen.B(fh.Sum) != gen.B(ih.Sum) || fh.CounterResetHint != ih.CounterResetHint {
			return ev.Failf("ToFloat changed a scalar field: %v -> %v", ih, fh)
		}
		if !ih.UsesCustomBuckets() && fh.ZeroCount != float64(ih.ZeroCount) {
			return ev.Failf("ToFloat zero count %v -> %v", ih.ZeroCount, fh.ZeroCount)
		}
		for name, p := range map[string][2]any{"positive": {gen.IntBucketMap(ih.PositiveSpans, ih.PositiveBuckets), gen.BucketMap(fh.PositiveSpans, fh.PositiveBuckets)},
			"negative": {gen.IntBucketMap(ih.NegativeSpans, ih.NegativeBuckets), gen.BucketMap(fh.NegativeSpans, fh.NegativeBuckets)}} {
			im, fm := p[0].(map[int32]int64), p[1].(map[int32]float64)
			if len(im) != len(fm) {
				return ev.Failf("ToFloat %s buckets: %v -> %v", name, im, fm)
			}
			for k, v := range im {
				if fm[k] != float64(v) {
					return ev.Failf("ToFloat %s bucket %d: %d -> %v", name, k, v, fm[k])
				}
			}
		}
		if !boundsEq(ih.CustomValues, fh.CustomValues) {
			return ev.Failf("ToFloat custom bounds differ")
		}
		if len(ih.PositiveBuckets)+len(ih.NegativeBuckets) >= 3 {
			r.NonTrivial()
		}
		return nil
	case "detectreset":
		return runC31DetectReset(c, r)
	}
	return nil
}

func catchPanic(f func()) (p any) {
	defer func() { p = recover() }()
	f()
	return nil
}

// leadingEmptySpan: the first span of a side has length 0 (legal per Validate, called
// "pathologic" in the iterators).
func leadingEmptySpan(h *histogram.FloatHistogram) bool {
	return (len(h.PositiveSpans) > 0 && h.PositiveSpans[0].Length == 0) || (len(h.NegativeSpans) > 0 && h.NegativeSpans[0].Length == 0)
}

func runC31AddSub(c c31Case, r *ev.Rec) error {
	a, b := c.operand(0), c.operand(1)
	a0, b0 := c.operand(0), c.operand(1)
	ma, mb := modelOf(a), modelOf(b)
	sign := 1
	if c.Op == "sub" {
		sign = -1
	}
	var res *histogram.FloatHistogram
	var reconciled bool
	var err error
	if p := catchPanic(func() {
		if sign > 0 {
			res, _, reconciled, err = a.Add(b)
		} else {
			res, _, reconciled, err = a.Sub(b)
		}
	}); p != nil {
		if leadingEmptySpan(a0) {
			return ev.Failf("%s panicked (receiver with an empty first span): %v\n a %v spans %v %v\n b %v", c.Op, p, a0, a0.PositiveSpans, a0.NegativeSpans, b0)
		}
		return ev.Failf("%s panicked: %v\n a %v spans %v %v\n b %v spans %v %v", c.Op, p, a0, a0.PositiveSpans, a0.NegativeSpans, b0, b0.PositiveSpans, b0.NegativeSpans)
	}
	if err != nil {
		return ev.Failf("%s of compatible histograms failed: %v\n a %v\n b %v", c.Op, err, a0, b0)
	}
	if d := gen.FloatHistExact(b0, b); d != "" {
		return ev.Failf("%s modified its argument (%s)\n a %v\n b before %v\n b after  %v", c.Op, d, a0, b0, b)
	}
	want := combine(ma, mb, sign)
	got := modelOf(res)
	mass := new(big.Float).Add(ma.mass(), mb.mass())
	if ma.custom {
		r.Class("custom")
		if reconciled != !boundsEq(ma.cv, mb.cv) {
			return ev.Failf("%s: nhcbBoundsReconciled=%v but bounds equal=%v", c.Op, reconciled, boundsEq(ma.cv, mb.cv))
		}
		if reconciled {
			r.Class("custom-bounds-differ")
		}
	} else {
		if ma.schema != mb.schema {
			r.Class("schema-differs")
		}
		if ma.zt != mb.zt {
			r.Class("zt-differs")
		}
		if want.zt > math.Max(ma.zt, mb.zt) {
			r.Class("zt-raised-by-populated-bucket")
		}
		if want.zc.Cmp(new(big.Float).Add(ma.zc, mb.zc)) != 0 && sign > 0 {
			r.Class("zero-bucket-absorbed-mass")
		}
	}
	if d := cmpModel(want, got, mass, 1e-12); d != "" {
		if !ma.custom && !onSchemaBoundary(want.zt, want.schema) {
			return ev.FailSig("zero-threshold-off-result-schema-boundary", "%s: %s\n a %v\n b %v\n result %v", c.Op, d, a0, b0, res)
		}
		return ev.Failf("%s: %s\n a %v\n b %v\n result %v", c.Op, d, a0, b0, res)
	}
	wc, _ := want.count.Float64()
	if gen.B(res.Count) != gen.B(wc) {
		return ev.Failf("%s: count %v, want %v", c.Op, res.Count, wc)
	}
	if gen.B(res.Sum) != gen.B(want.sum) {
		return ev.Failf("%s: sum %v, want %v", c.Op, res.Sum, want.sum)
	}
	if !ma.custom {
		if res.ZeroThreshold < a0.ZeroThreshold || res.ZeroThreshold < b0.ZeroThreshold {
			return ev.Failf("%s: result zero threshold %g below an input's (%g, %g)", c.Op, res.ZeroThreshold, a0.ZeroThreshold, b0.ZeroThreshold)
		}
	}
	if pairNonTrivial(ma, mb) {
		r.NonTrivial()
	}
	return nil
}

func runC31Kahan(c c31Case, r *ev.Rec) error {
	h := c.operand(0)
	want := modelOf(h)
	mass := want.mass()
	var comp *histogram.FloatHistogram
	nontrivial, leading, offBoundary := false, false, false
	sumExact := bf(h.Sum)
	sumAbs := bf(math.Abs(h.Sum))
	for i := 1; i < len(c.Hs); i++ {
		o := c.operand(i)
		o0 := c.operand(i)
		mo := modelOf(o)
		if pairNonTrivial(want, mo) {
			nontrivial = true
		}
		if leadingEmptySpan(h) {
			leading = true
		}
		var err error
		if p := catchPanic(func() { comp, _, _, err = h.KahanAdd(o, comp) }); p != nil {
			if leading {
				return ev.Failf("KahanAdd panicked at operand %d (receiver with an empty first span): %v\n receiver spans %v %v", i, p, h.PositiveSpans, h.NegativeSpans)
			}
			return ev.Failf("KahanAdd panicked at operand %d: %v\n receiver %v spans %v %v\n operand %v", i, p, h, h.PositiveSpans, h.NegativeSpans, o0)
		}
		if err != nil {
			return ev.Failf("KahanAdd of compatible histograms failed at operand %d: %v", i, err)
		}
		if d := gen.FloatHistExact(o0, o); d != "" {
			return ev.Failf("KahanAdd modified its argument (%s)", d)
		}
		if !want.custom {
			// the receiver of a later step may already have buckets overlapping its zero
			// bucket (resolution reduction does that), so the threshold is taken from the
			// result and only required to cover both operands
			if h.ZeroThreshold < want.zt || h.ZeroThreshold < mo.zt {
				return ev.Failf("KahanAdd step %d: zero threshold %g below an operand's (%g, %g)", i, h.ZeroThreshold, want.zt, mo.zt)
			}
			if _, nr := predictThreshold(want, mo); nr {
				r.Class("kahan-negative-bucket-restart")
			}
			want = combineT(want, mo, +1, h.ZeroThreshold)
			if !onSchemaBoundary(want.zt, want.schema) {
				offBoundary = true
			}
		} else {
			want = combine(want, mo, +1)
		}
		mass.Add(mass, mo.mass())
		sumExact.Add(sumExact, bf(o.Sum))
		sumAbs.Add(sumAbs, bf(math.Abs(o.Sum)))
	}
	// h + compensation must equal the exact sum far beyond float64 precision
	got := modelOf(h)
	cm := modelOf(comp)
	addIn := func(dst, src map[int32]*big.Float) {
		for k, v := range src {
			if dst[k] == nil {
				dst[k] = bf(0)
			}
			dst[k].Add(dst[k], v)
		}
	}
	// the compensation histogram shares the span layout of h: read its buckets with h's spans
	addIn(got.pos, bmapOf(h.PositiveSpans, comp.PositiveBuckets))
	addIn(got.neg, bmapOf(h.NegativeSpans, comp.NegativeBuckets))
	got.zc.Add(got.zc, cm.zc)
	scalesDiffer := false
	for i := range c.Scales {
		if c.Scales[i] != c.Scales[0] {
			scalesDiffer = true
		}
	}
	if scalesDiffer {
		r.Class("kahan-mixed-magnitudes")
	}
	if d := cmpModel(want, got, mass, 1e-25); d != "" {
		if !want.custom && offBoundary {
			return ev.FailSig("zero-threshold-off-result-schema-boundary", "KahanAdd chain (%d operands): sum + compensation is not the exact sum: %s\n result %v\n comp %v", len(c.Hs), d, h, comp)
		}
		return ev.Failf("KahanAdd chain (%d operands): sum + compensation is not the exact sum: %s\n result %v\n comp %v", len(c.Hs), d, h, comp)
	}
	gc := new(big.Float).Add(bf(h.Count), bf(comp.Count))
	if !near(gc, want.count, mass, 1e-25) {
		return ev.Failf("KahanAdd chain: count+compensation %s, exact %s", gc.Text('g', 25), want.count.Text('g', 25))
	}
	gs := new(big.Float).Add(bf(h.Sum), bf(comp.Sum))
	if !near(gs, sumExact, sumAbs, 1e-25) {
		return ev.Failf("KahanAdd chain: sum+compensation %s, exact %s", gs.Text('g', 25), sumExact.Text('g', 25))
	}
	if nontrivial {
		r.NonTrivial()
	}
	return nil
}

func runC31DetectReset(c c31Case, r *ev.Rec) error {
	prev := c.operand(0)
	var curr *histogram.FloatHistogram
	if !c.Derive {
		curr = c.operand(1)
	} else {
		mp, md := modelOf(prev), modelOf(c.operand(1))
		m := combine(mp, md, +1)
		r.Class("tweak:" + c.Tweak)
		keys := append(sortedKeys(m.pos), sortedKeys(m.neg)...)
		pick := func() (map[int32]*big.Float, int32, bool) {
			if len(keys) == 0 {
				return nil, 0, false
			}
			i := c.TweakI % len(keys)
			if i < len(m.pos) {
				return m.pos, keys[i], true
			}
			return m.neg, keys[i], true
		}
		step := bf(gen.F(c.Scales[0]))
		switch c.Tweak {
		case "dec-bucket":
			if mm, k, ok := pick(); ok {
				mm[k] = new(big.Float).Sub(mm[k], step)
				if mm[k].Sign() < 0 {
					mm[k] = bf(0)
				}
			}
		case "inc-bucket":
			if mm, k, ok := pick(); ok {
				mm[k] = new(big.Float).Add(mm[k], step)
				m.count = new(big.Float).Add(m.count, step)
			}
		case "drop-bucket":
			if mm, k, ok := pick(); ok {
				delete(mm, k)
			}
		case "dec-zero":
			m.zc = new(big.Float).Sub(m.zc, step)
			if m.zc.Sign() < 0 {
				m.zc = bf(0)
			}
		case "dec-count":
			m.count = new(big.Float).Sub(mp.count, step)
			if m.count.Sign() < 0 {
				m.count = bf(0)
			}
		}
		curr = m.build()
		if !m.custom {
			switch c.Tweak {
			case "inc-schema":
				if curr.Schema < 8 {
					// re-express at a higher resolution: index k -> 2k (same upper bound)
					mm := modelOf(curr)
					np, nn := map[int32]*big.Float{}, map[int32]*big.Float{}
					for k, v := range mm.pos {
						np[2*k] = v
					}
					for k, v := range mm.neg {
						nn[2*k] = v
					}
					mm.pos, mm.neg, mm.schema = np, nn, mm.schema+1
					curr = mm.build()
				}
			case "dec-schema":
				if curr.Schema > -4 {
					mm := modelOf(curr)
					mm = mm.withThresholdAndSchema(0, mm.schema-1)
					mm.zt, mm.zc = curr.ZeroThreshold, bf(curr.ZeroCount)
					curr = mm.build()
				}
			case "widen-zt":
				mm := modelOf(curr)
				t := mm.raiseThreshold(math.Max(mm.zt*4, math.Exp2(float64(c.TweakI%12-6))))
				mm = mm.withThresholdAndSchema(t, mm.schema)
				curr = mm.build()
			case "narrow-zt":
				curr.ZeroThreshold /= 2
			case "cut-zt":
				// put the new threshold strictly inside a populated positive bucket of prev
				if ks := sortedKeys(mp.pos); len(ks) > 0 {
					k := ks[c.TweakI%len(ks)]
					if mp.pos[k].Sign() != 0 {
						curr.ZeroThreshold = math.Sqrt(expLower(k, mp.schema) * expUpper(k, mp.schema))
					}
				}
			}
		}
		if err := curr.Validate(); err != nil {
			r.Discard()
			return nil
		}
	}
	curr.CounterResetHint = histogram.CounterResetHint(c.Hs[1].Hint)
	prev0, curr0 := prev.Copy(), curr.Copy()
	got := curr.DetectReset(prev)
	if d := gen.FloatHistExact(prev0, prev); d != "" {
		return ev.Failf("DetectReset modified the previous histogram (%s)", d)
	}
	if d := gen.FloatHistExact(curr0, curr); d != "" {
		return ev.Failf("DetectReset modified its receiver (%s)", d)
	}
	want, why := resetPredicate(modelOf(curr), modelOf(prev))
	r.Class("reset-reason:" + why)
	if got != want {
		mc := modelOf(curr)
		if !mc.custom && !modelOf(prev).custom && !onSchemaBoundary(mc.zt, mc.schema) {
			return ev.FailSig("zero-threshold-off-result-schema-boundary", "DetectReset = %v, reference says %v (%s)\n prev %v\n curr %v", got, want, why, prev, curr)
		}
		return ev.Failf("DetectReset = %v, reference says %v (%s)\n prev %v\n curr %v", got, want, why, prev, curr)
	}
	if pairNonTrivial(modelOf(curr), modelOf(prev)) {
		r.NonTrivial()
	}
	return nil
}

// resetPredicate is the property text evaluated on the bucket maps.
func resetPredicate(curr, prev hmodel) (bool, string) {
	if curr.count.Cmp(prev.count) < 0 {
		return true, "count-decreased"
	}
	if curr.custom != prev.custom {
		if curr.custom {
			return true, "bucket-type-changed"
		}
		return true, "bucket-type-changed"
	}
	less := func(a, b map[int32]*big.Float) bool {
		for k, v := range b {
			w := a[k]
			if w == nil {
				w = bf(0)
			}
			if w.Cmp(v) < 0 {
				return true
			}
		}
		return false
	}
	if curr.custom {
		cv := curr.cv
		if !boundsEq(curr.cv, prev.cv) {
			cv = intersectBounds(curr.cv, prev.cv)
		}
		if less(curr.toBounds(cv).pos, prev.toBounds(cv).pos) {
			return true, "custom-bucket-decreased"
		}
		return false, "custom-no-reset"
	}
	if curr.schema > prev.schema {
		return true, "resolution-increased"
	}
	if curr.zt < prev.zt {
		return true, "zero-threshold-decreased"
	}
	if t := prev.raiseThreshold(curr.zt); t != curr.zt {
		return true, "zero-threshold-cuts-populated-bucket"
	}
	p := prev.withThresholdAndSchema(curr.zt, curr.schema)
	if curr.zc.Cmp(p.zc) < 0 {
		return true, "zero-count-decreased"
	}
	// buckets of curr inside its own zero bucket are not part of the domain (fixZT)
	if less(curr.pos, p.pos) || less(curr.neg, p.neg) {
		return true, "bucket-decreased"
	}
	return false, "no-reset"
}

func TestC31(t *testing.T) {
	ev.Check(t, "C31",
		"valid float histograms from gen.Histogram (schemas -4..8 or custom bounds from a shared grid, sparse spans with gaps and empty buckets, zero thresholds 0/tiny/powers of two never overlapping the histogram's own buckets, counts scaled by 1/0.1/0.001/3/2^54) as operands of Add, Sub, KahanAdd chains (2-5), Compact(n), ReduceResolution, CopyToSchema, ToFloat (integer histograms) and DetectReset (independent pairs, identical pairs, and curr = prev + delta re-laid-out then tweaked: bucket/zero/count decreased, bucket dropped, schema up/down, threshold widened/narrowed); compared with an exact big.Float bucket-map model keyed by (sign, index at the target schema). Non-trivial: operand pair differs in schema, zero threshold or custom bounds with both populated, or shares a populated bucket; compact with removable buckets; reduce with >=2 populated buckets to a lower schema; ToFloat with >=3 buckets; distinct by hash of the case.",
		genC31, runC31)
}
