package pqlpure

import (
	"bytes"
	"encoding/json"
	"fmt"
	"math"
	"math/big"
	"strconv"
	"strings"
	"testing"

	"github.com/prometheus/prometheus/model/histogram"
	"github.com/prometheus/prometheus/promql"
	"github.com/prometheus/prometheus/promql/parser"
	v1 "github.com/prometheus/prometheus/web/api/v1"
	"pgregory.net/rapid"

	"verifharness/internal/ev"
	"verifharness/internal/gen"
)

// C51 — query API JSON encodes values losslessly (independent decoder).

type c51Point struct {
	T     int64
	V     uint64    // float bits (when H == nil)
	H     *gen.Hist `json:",omitempty"`
	Scale uint64    `json:",omitempty"` // factor applied to the histogram's counts
}

type c51Series struct {
	L      gen.Lset
	Points []c51Point
}

type c51Case struct {
	Kind   string      // vector matrix scalar string
	Series []c51Series `json:",omitempty"` // vector: one point each; matrix: floats and histograms, each ascending in T
	T      int64
	V      uint64
	S      string
}

var (
	c51MinT = int64(math.MinInt64/1000+62135596801) * 1000
	c51MaxT = int64(math.MaxInt64/1000-62135596801)*1000 + 999
)

func genC51T(t *rapid.T, label string) int64 {
	switch rapid.IntRange(0, 9).Draw(t, label+"class") {
	case 0:
		return int64(rapid.IntRange(-1100, 1100).Draw(t, label+"small"))
	case 1:
		return rapid.SampledFrom([]int64{0, 1, 9, 10, 99, 100, 999, 1000, 1001, 1010, 1100, -1, -9, -10, -99, -100, -999, -1000, -1001}).Draw(t, label+"pad")
	case 2:
		return 1_700_000_000_000 + int64(rapid.IntRange(0, 100_000_000).Draw(t, label+"now"))
	case 3:
		return rapid.SampledFrom([]int64{1 << 53, 1<<53 + 1, 1<<53 - 1, -(1 << 53), -(1<<53 + 1), 1 << 51, 1<<51 + 1, 1<<52 + 3, c51MinT, c51MaxT, c51MinT + 1, c51MaxT - 1}).Draw(t, label+"edge")
	case 4:
		return rapid.Int64Range(c51MinT, c51MaxT).Draw(t, label+"any")
	case 5:
		return rapid.Int64Range(-(1<<50), 1<<50).Draw(t, label+"mid")
	default:
		return int64(rapid.IntRange(0, 100000).Draw(t, label+"sec"))*1000 + int64(rapid.SampledFrom([]int{0, 0, 1, 5, 10, 50, 100, 500, 999}).Draw(t, label+"ms"))
	}
}

var c51Cutoffs = []float64{1e-6, 1e21, 1e-7, 1e20, 1e22, 1 << 53, 1<<53 + 2, 1<<53 - 1, 5e-324, 2.2250738585072014e-308, 123456789.12345678, 0.1, 1.0 / 3, 1e15, 1e16, 1e17, 999999999999999.9}

func genC51V(t *rapid.T, label string) uint64 {
	if rapid.IntRange(0, 3).Draw(t, label+"cut") == 0 {
		f := rapid.SampledFrom(c51Cutoffs).Draw(t, label+"cutoff")
		f = ulpSteps(f, rapid.IntRange(-2, 2).Draw(t, label+"cutulp"))
		if rapid.Bool().Draw(t, label+"neg") {
			f = -f
		}
		return gen.B(f)
	}
	return gen.FloatBits().Draw(t, label)
}

func genC51Point(t *rapid.T, hist bool, prevT int64) c51Point {
	p := c51Point{T: genC51T(t, "t")}
	if prevT != math.MinInt64 && p.T <= prevT {
		p.T = prevT + int64(rapid.IntRange(1, 60000).Draw(t, "dt"))
	}
	if !hist {
		p.V = genC51V(t, "v")
		return p
	}
	h := fixZT(gen.Histogram(gen.HistOpts{Float: true, AllowCustom: true, AllowGauge: true, FractionalCounts: true, NaNSum: true}).Draw(t, "h"))
	p.H = &h
	p.Scale = gen.B(rapid.SampledFrom([]float64{1, 1, 1, 1e21, 1e-7, 1.0 / 3}).Draw(t, "hscale"))
	return p
}

func genC51(t *rapid.T) c51Case {
	c := c51Case{Kind: rapid.SampledFrom([]string{"vector", "vector", "matrix", "matrix", "scalar", "string"}).Draw(t, "kind")}
	switch c.Kind {
	case "scalar":
		c.T, c.V = genC51T(t, "t"), genC51V(t, "v")
	case "string":
		c.T = genC51T(t, "t")
		c.S = rapid.OneOf(rapid.SampledFrom([]string{"", "a", "ü", "\"q\"", "a\\b", "line\nbreak", "<>&", " "}), rapid.StringN(0, 12, -1)).Draw(t, "s")
	case "vector":
		n := rapid.IntRange(0, 6).Draw(t, "n")
		ts := genC51T(t, "t")
		for i := 0; i < n; i++ {
			p := genC51Point(t, rapid.IntRange(0, 2).Draw(t, "hist") == 0, math.MinInt64)
			p.T = ts // all samples of a vector share the timestamp
			if rapid.IntRange(0, 5).Draw(t, "ownT") == 0 {
				p.T = genC51T(t, "pt") // the codec must not rely on that
			}
			c.Series = append(c.Series, c51Series{L: gen.SmallLset(rapid.Bool().Draw(t, "named"), 3).Draw(t, "ls"), Points: []c51Point{p}})
		}
	case "matrix":
		n := rapid.IntRange(0, 4).Draw(t, "n")
		for i := 0; i < n; i++ {
			s := c51Series{L: gen.SmallLset(rapid.Bool().Draw(t, "named"), 3).Draw(t, "ls")}
			nf, nh := rapid.IntRange(0, 5).Draw(t, "nf"), rapid.IntRange(0, 2).Draw(t, "nh")
			prev := int64(math.MinInt64)
			for j := 0; j < nf; j++ {
				p := genC51Point(t, false, prev)
				prev = p.T
				s.Points = append(s.Points, p)
			}
			prev = math.MinInt64
			for j := 0; j < nh; j++ {
				p := genC51Point(t, true, prev)
				prev = p.T
				s.Points = append(s.Points, p)
			}
			if len(s.Points) == 0 {
				s.Points = append(s.Points, genC51Point(t, false, math.MinInt64))
			}
			c.Series = append(c.Series, s)
		}
	}
	return c
}

func (p c51Point) hist() *histogram.FloatHistogram {
	if p.H == nil {
		return nil
	}
	return scaled(*p.H, p.Scale)
}

// ---- independent decoder ----

// tsMillis parses a JSON number (seconds, decimal) into exact milliseconds.
func tsMillis(n json.Number) (*big.Int, error) {
	r, ok := new(big.Rat).SetString(string(n))
	if !ok {
		return nil, fmt.Errorf("timestamp %q is not a decimal number", n)
	}
	r.Mul(r, big.NewRat(1000, 1))
	if !r.IsInt() {
		return nil, fmt.Errorf("timestamp %q is not a whole number of milliseconds", n)
	}
	return r.Num(), nil
}

func checkTS(raw any, want int64, what string) error {
	n, ok := raw.(json.Number)
	if !ok {
		return ev.Failf("%s: timestamp is %T, not a JSON number", what, raw)
	}
	ms, err := tsMillis(n)
	if err != nil {
		return ev.Failf("%s: %v (want %d ms)", what, err, want)
	}
	if ms.Cmp(big.NewInt(want)) != 0 {
		return ev.Failf("%s: timestamp %d ms was written as %s, which reads back as %s ms", what, want, n, ms)
	}
	return nil
}

func parseF(raw any, what string) (float64, error) {
	s, ok := raw.(string)
	if !ok {
		return 0, ev.Failf("%s: value is %T, not a JSON string", what, raw)
	}
	f, err := strconv.ParseFloat(s, 64)
	if err != nil {
		return 0, ev.Failf("%s: value %q does not parse as a float: %v", what, s, err)
	}
	return f, nil
}

func checkF(raw any, want float64, what string) error {
	f, err := parseF(raw, what)
	if err != nil {
		return err
	}
	if math.IsNaN(want) && math.IsNaN(f) {
		return nil
	}
	if math.Float64bits(f) != math.Float64bits(want) {
		return ev.Failf("%s: float %v (%#x) was written as %v, which reads back as %v (%#x)", what, want, math.Float64bits(want), raw, f, math.Float64bits(f))
	}
	return nil
}

func checkHist(raw any, h *histogram.FloatHistogram, what string) error {
	m, ok := raw.(map[string]any)
	if !ok {
		return ev.Failf("%s: histogram is %T, not an object", what, raw)
	}
	if err := checkF(m["count"], h.Count, what+" count"); err != nil {
		return err
	}
	if err := checkF(m["sum"], h.Sum, what+" sum"); err != nil {
		return err
	}
	var want []refBucket
	for _, b := range refBuckets(h) {
		if b.count != 0 {
			want = append(want, b)
		}
	}
	// refBuckets narrows the zero bucket for the quantile laws; the API reports it as [-zt, zt]
	var got []any
	if bl, ok := m["buckets"]; ok {
		got, ok = bl.([]any)
		if !ok {
			return ev.Failf("%s: buckets is %T", what, bl)
		}
	}
	if len(got) != len(want) {
		return ev.Failf("%s: %d non-empty buckets, JSON has %d\n h %v\n json %v", what, len(want), len(got), h, got)
	}
	for i, w := range want {
		e, ok := got[i].([]any)
		if !ok || len(e) != 4 {
			return ev.Failf("%s: bucket %d is %v", what, i, got[i])
		}
		code, ok := e[0].(json.Number)
		if !ok {
			return ev.Failf("%s: bucket %d boundary code is %T", what, i, e[0])
		}
		lo, err := parseF(e[1], what+" bucket lower")
		if err != nil {
			return err
		}
		up, err := parseF(e[2], what+" bucket upper")
		if err != nil {
			return err
		}
		if err := checkF(e[3], w.count, fmt.Sprintf("%s bucket %d count", what, i)); err != nil {
			return err
		}
		wlo, wup := w.lower, w.upper
		var wantCode string
		switch {
		case w.zero:
			wlo, wup, wantCode = -h.ZeroThreshold, h.ZeroThreshold, "3"
		case h.UsesCustomBuckets():
			wantCode = "0"
			if math.IsInf(wlo, -1) {
				wantCode = "0|3" // whether -Inf is "included" is immaterial
			}
		case wup <= 0:
			wantCode = "1" // negative buckets: lower inclusive, upper exclusive
		default:
			wantCode = "0" // positive buckets: lower exclusive, upper inclusive
		}
		okCode := false
		for _, wc := range strings.Split(wantCode, "|") {
			if string(code) == wc {
				okCode = true
			}
		}
		if !okCode {
			return ev.Failf("%s: bucket %d [%v,%v] has boundary code %s, want %s\n h %v", what, i, lo, up, code, wantCode, h)
		}
		exact := h.UsesCustomBuckets() || w.zero
		if (exact && (lo != wlo || up != wup)) || (!exact && (!relEq(lo, wlo, 1e-12) || !relEq(up, wup, 1e-12))) {
			return ev.Failf("%s: bucket %d has bounds [%v,%v], want [%v,%v]\n h %v", what, i, lo, up, wlo, wup, h)
		}
	}
	return nil
}

func needsManyDigits(f float64) bool {
	if math.IsNaN(f) || math.IsInf(f, 0) || f == 0 {
		return false
	}
	s := strconv.FormatFloat(f, 'e', -1, 64)
	mant := s[:strings.IndexByte(s, 'e')]
	digits := len(strings.ReplaceAll(strings.TrimPrefix(mant, "-"), ".", ""))
	a := math.Abs(f)
	return digits > 15 || a < 1e-6 || a >= 1e21
}

func runC51(c c51Case, r *ev.Rec) error {
	r.Class("kind:" + c.Kind)
	var val parser.Value
	nontrivial := false
	switch c.Kind {
	case "scalar":
		val = promql.Scalar{T: c.T, V: gen.F(c.V)}
		nontrivial = needsManyDigits(gen.F(c.V))
	case "string":
		val = promql.String{T: c.T, V: c.S}
	case "vector":
		v := promql.Vector{}
		for _, s := range c.Series {
			p := s.Points[0]
			smp := promql.Sample{Metric: s.L.Labels(), T: p.T, F: gen.F(p.V), H: p.hist()}
			if smp.H != nil {
				if smp.H.Validate() != nil {
					r.Discard()
					return nil
				}
				smp.F = 0
			}
			v = append(v, smp)
		}
		val = v
	case "matrix":
		m := promql.Matrix{}
		for _, s := range c.Series {
			ser := promql.Series{Metric: s.L.Labels()}
			for _, p := range s.Points {
				if h := p.hist(); h != nil {
					if h.Validate() != nil {
						r.Discard()
						return nil
					}
					ser.Histograms = append(ser.Histograms, promql.HPoint{T: p.T, H: h})
				} else {
					ser.Floats = append(ser.Floats, promql.FPoint{T: p.T, F: gen.F(p.V)})
				}
			}
			m = append(m, ser)
		}
		val = m
	}
	out, err := v1.JSONCodec{}.Encode(&v1.Response{Status: "success", Data: &v1.QueryData{ResultType: val.Type(), Result: val}})
	if err != nil {
		return ev.Failf("Encode failed: %v", err)
	}
	dec := json.NewDecoder(bytes.NewReader(out))
	dec.UseNumber()
	var doc struct {
		Status string
		Data   struct {
			ResultType string
			Result     any
		}
	}
	if err := dec.Decode(&doc); err != nil {
		return ev.Failf("the encoded response is not valid JSON: %v\n%s", err, out)
	}
	if doc.Status != "success" || doc.Data.ResultType != string(val.Type()) {
		return ev.Failf("status/resultType: %q %q", doc.Status, doc.Data.ResultType)
	}
	bigTS := func(t int64) bool { return t >= 1<<51 || t <= -(1<<51) }
	switch c.Kind {
	case "scalar", "string":
		arr, ok := doc.Data.Result.([]any)
		if !ok || len(arr) != 2 {
			return ev.Failf("%s result is %v", c.Kind, doc.Data.Result)
		}
		if err := checkTS(arr[0], c.T, c.Kind); err != nil {
			if bigTS(c.T) {
				// Scalar/String.MarshalJSON write float64(T)/1000 through encoding/json: beyond 2^51 ms
				// (the year 73326) a float64 can no longer carry the millisecond
				return ev.FailSig("scalar-string-timestamp-via-float64", "%s", err.Error())
			}
			return err
		}
		if c.Kind == "scalar" {
			if err := checkF(arr[1], gen.F(c.V), "scalar"); err != nil {
				return err
			}
		} else if s, ok := arr[1].(string); !ok || (s != c.S && strings.ToValidUTF8(c.S, "�") == c.S) {
			return ev.Failf("string value %q read back as %v", c.S, arr[1])
		}
	case "vector", "matrix":
		arr, ok := doc.Data.Result.([]any)
		if !ok || len(arr) != len(c.Series) {
			return ev.Failf("%s result has %v entries, want %d\n%s", c.Kind, doc.Data.Result, len(c.Series), out)
		}
		for i, s := range c.Series {
			e, ok := arr[i].(map[string]any)
			if !ok {
				return ev.Failf("%s[%d] is %T", c.Kind, i, arr[i])
			}
			what := fmt.Sprintf("%s[%d]", c.Kind, i)
			metric, _ := e["metric"].(map[string]any)
			want := s.L.Map()
			if len(metric) != len(want) {
				return ev.Failf("%s metric %v, want %v", what, metric, want)
			}
			for k, v := range want {
				if metric[k] != v {
					return ev.Failf("%s metric %v, want %v", what, metric, want)
				}
			}
			var floats, hists []c51Point
			for _, p := range s.Points {
				if p.H != nil {
					hists = append(hists, p)
					if len(p.hist().NegativeBuckets) > 0 && p.hist().ZeroCount != 0 {
						nontrivial = true
					}
				} else {
					floats = append(floats, p)
					if needsManyDigits(gen.F(p.V)) {
						nontrivial = true
					}
				}
			}
			pair := func(raw any, what string) ([]any, error) {
				a, ok := raw.([]any)
				if !ok || len(a) != 2 {
					return nil, ev.Failf("%s is %v, want [timestamp, value]", what, raw)
				}
				return a, nil
			}
			if c.Kind == "vector" {
				key, other := "value", "histogram"
				if len(hists) == 1 {
					key, other = other, key
				}
				if _, has := e[other]; has {
					return ev.Failf("%s has both value and histogram: %v", what, e)
				}
				a, err := pair(e[key], what+" "+key)
				if err != nil {
					return err
				}
				p := s.Points[0]
				if err := checkTS(a[0], p.T, what); err != nil {
					return err
				}
				if p.H != nil {
					if err := checkHist(a[1], p.hist(), what); err != nil {
						return err
					}
				} else if err := checkF(a[1], gen.F(p.V), what); err != nil {
					return err
				}
				continue
			}
			for _, part := range []struct {
				key string
				pts []c51Point
			}{{"values", floats}, {"histograms", hists}} {
				var list []any
				if raw, has := e[part.key]; has {
					list, ok = raw.([]any)
					if !ok {
						return ev.Failf("%s %s is %T", what, part.key, raw)
					}
				}
				if len(list) != len(part.pts) {
					return ev.Failf("%s has %d %s, want %d\n%s", what, len(list), part.key, len(part.pts), out)
				}
				for j, p := range part.pts {
					w := fmt.Sprintf("%s %s[%d]", what, part.key, j)
					a, err := pair(list[j], w)
					if err != nil {
						return err
					}
					if err := checkTS(a[0], p.T, w); err != nil {
						return err
					}
					if p.H != nil {
						if err := checkHist(a[1], p.hist(), w); err != nil {
							return err
						}
					} else if err := checkF(a[1], gen.F(p.V), w); err != nil {
						return err
					}
				}
			}
		}
	}
	if nontrivial {
		r.NonTrivial()
	}
	return nil
}

func TestC51(t *testing.T) {
	ev.Check(t, "C51",
		"promql Vector / Matrix / Scalar / String values with timestamps over the whole API range (0, |t| < 1000 ms incl. negative, padding boundaries 9/10/99/100/999, now, 2^51..2^53 neighbourhood, MinTime/MaxTime), floats from raw bits with boosted specials plus the formatting cut-offs (1e-6, 1e21, 1e-7, 2^53+-1, denormals, 16-17 digit values) +-2 ulp, float histograms (negative/zero/positive, custom buckets, NaN sums, counts scaled by 1e21 / 1e-7 / 1/3), encoded with v1.JSONCodec{}.Encode(&Response{Data: &QueryData{...}}) and decoded with encoding/json (UseNumber), exact decimal timestamp parsing (big.Rat) and strconv.ParseFloat; histogram buckets compared with independently computed bounds and inclusiveness codes. Non-trivial: a float needing > 15 significant digits or exponent form, or a histogram with negative buckets and a zero bucket; distinct by hash of the case.",
		genC51, runC51)
}
