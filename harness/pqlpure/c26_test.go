package pqlpure

import (
	"errors"
	"fmt"
	"math"
	"reflect"
	"sort"
	"strings"
	"sync"
	"testing"
	"unicode/utf8"

	"github.com/prometheus/common/model"
	"github.com/prometheus/prometheus/model/labels"
	"github.com/prometheus/prometheus/promql/parser"
	"github.com/prometheus/prometheus/promql/parser/posrange"
	"github.com/prometheus/prometheus/promql/promqltest"
	"pgregory.net/rapid"

	"verifharness/internal/ev"
	"verifharness/internal/pqlgen"
)

// C26 — PromQL expressions print to text that parses back unchanged; the parser is total.

type c26Case struct {
	Kind string // gen exotic mut seedmut bytes
	Opts uint8  // bit0 experimental functions, bit1 duration expr, bit2 extended range selectors, bit3 fill modifiers
	Src  string
}

func c26Options(m uint8) parser.Options {
	return parser.Options{
		EnableExperimentalFunctions:  m&1 != 0,
		ExperimentalDurationExpr:     m&2 != 0,
		EnableExtendedRangeSelectors: m&4 != 0,
		EnableBinopFillModifiers:     m&8 != 0,
	}
}

var (
	c26SeedsOnce sync.Once
	c26Seeds     []string
)

// seeds: the expressions of promqltest's embedded *.test files (the corpus the design
// names for the totality part).
func c26SeedExprs() []string {
	c26SeedsOnce.Do(func() {
		xs, err := promqltest.GetBuiltInExprs()
		if err == nil {
			sort.Strings(xs)
			c26Seeds = xs
		}
		if len(c26Seeds) == 0 {
			c26Seeds = []string{"sum by (a) (rate(m1[5m]))"}
		}
	})
	return c26Seeds
}

// c26Tokens splits a query into rough tokens (words, numbers, quoted strings, single
// punctuation, blanks) for token-level mutation.
func c26Tokens(s string) []string {
	var out []string
	for i := 0; i < len(s); {
		c := s[i]
		j := i + 1
		switch {
		case c == '"' || c == '\'' || c == '`':
			for j < len(s) && s[j] != c {
				if s[j] == '\\' && c != '`' && j+1 < len(s) {
					j++
				}
				j++
			}
			if j < len(s) {
				j++
			}
		case c == '_' || c == ':' || c == '.' || (c >= '0' && c <= '9') || (c >= 'a' && c <= 'z') || (c >= 'A' && c <= 'Z'):
			for j < len(s) {
				d := s[j]
				if d == '_' || d == ':' || d == '.' || (d >= '0' && d <= '9') || (d >= 'a' && d <= 'z') || (d >= 'A' && d <= 'Z') {
					j++
					continue
				}
				break
			}
		case c == ' ' || c == '\n' || c == '\t':
			for j < len(s) && (s[j] == ' ' || s[j] == '\n' || s[j] == '\t') {
				j++
			}
		case c >= 0x80:
			_, w := utf8.DecodeRuneInString(s[i:])
			j = i + w
		}
		out = append(out, s[i:j])
		i = j
	}
	return out
}

var c26Vocab = []string{"(", ")", "{", "}", "[", "]", ",", ":", "@", "-", "+", "*", "/", "%", "^", "==", "!=", "=~", "!~", "=", "<", ">", "<=", ">=", "</", ">/",
	"by", "without", "on", "ignoring", "group_left", "group_right", "bool", "offset", "and", "or", "unless", "atan2", "fill", "fill_left", "fill_right",
	"anchored", "smoothed", "start()", "end()", "step()", "range()", "min_of", "max_of", "sum", "topk", "count_values", "limit_ratio", "rate", "info", "vector", "scalar",
	"5m", "1s1ms", "0x1F", "1e", "1e3", "NaN", "Inf", ".5", "0", "1", "\"s\"", "'", "`", "\"", "#", "\n", " ", "m1", "{{", "}}", "$", "\\", "\x00", "\xff", "é"}

func c26Mutate(t *rapid.T, src string) string {
	toks := c26Tokens(src)
	n := rapid.IntRange(1, 3).Draw(t, "nmut")
	for k := 0; k < n; k++ {
		if len(toks) == 0 {
			toks = []string{rapid.SampledFrom(c26Vocab).Draw(t, "vocab0")}
			continue
		}
		i := rapid.IntRange(0, len(toks)-1).Draw(t, "mutpos")
		switch rapid.IntRange(0, 6).Draw(t, "mutkind") {
		case 0: // delete
			toks = append(toks[:i:i], toks[i+1:]...)
		case 1: // duplicate
			toks = append(toks[:i+1:i+1], toks[i:]...)
		case 2: // swap with another
			j := rapid.IntRange(0, len(toks)-1).Draw(t, "mutpos2")
			toks[i], toks[j] = toks[j], toks[i]
		case 3: // insert vocabulary token
			v := rapid.SampledFrom(c26Vocab).Draw(t, "vocab")
			toks = append(toks[:i:i], append([]string{v}, toks[i:]...)...)
		case 4: // replace by vocabulary token
			toks[i] = rapid.SampledFrom(c26Vocab).Draw(t, "vocab")
		case 5: // truncate
			toks = toks[:i]
		default: // random bytes
			b := rapid.SliceOfN(rapid.Byte(), 1, 4).Draw(t, "rbytes")
			toks = append(toks[:i:i], append([]string{string(b)}, toks[i:]...)...)
		}
	}
	return strings.Join(toks, "")
}

func genC26(t *rapid.T) c26Case {
	c := c26Case{Opts: 15}
	if rapid.IntRange(0, 2).Draw(t, "optclass") == 0 {
		c.Opts = uint8(rapid.IntRange(0, 15).Draw(t, "opts"))
	}
	o := pqlgen.Options{MaxDepth: rapid.IntRange(1, 5).Draw(t, "depth")}
	// switch generator features off in step with the parser options (half of the time), so
	// that restricted option sets still accept most generated expressions
	if rapid.Bool().Draw(t, "align") {
		o.NoExperimental = c.Opts&1 == 0
		o.NoDurationExpr = c.Opts&2 == 0
		o.NoExtendedRange = c.Opts&4 == 0
		o.NoFill = c.Opts&8 == 0
	}
	switch rapid.IntRange(0, 9).Draw(t, "kind") {
	case 0, 1, 2:
		c.Kind = "gen"
		c.Src = pqlgen.Expr(o, pqlgen.VectorOrScalar).Draw(t, "src")
	case 3, 4, 5, 6:
		c.Kind = "exotic"
		o.Exotic = true
		ty := pqlgen.VectorOrScalar
		if rapid.IntRange(0, 9).Draw(t, "toptype") == 0 {
			ty = pqlgen.Type(rapid.IntRange(0, 3).Draw(t, "ty")) // also top-level matrix / string
		}
		c.Src = pqlgen.Expr(o, ty).Draw(t, "src")
	case 7:
		c.Kind = "mut"
		o.Exotic = rapid.Bool().Draw(t, "mexotic")
		c.Src = c26Mutate(t, pqlgen.Expr(o, pqlgen.VectorOrScalar).Draw(t, "src"))
	case 8:
		c.Kind = "seedmut"
		seeds := c26SeedExprs()
		s := seeds[rapid.IntRange(0, len(seeds)-1).Draw(t, "seed")]
		if rapid.IntRange(0, 3).Draw(t, "plain") > 0 {
			s = c26Mutate(t, s)
		}
		c.Src = s
	default:
		c.Kind = "bytes"
		if rapid.Bool().Draw(t, "ascii") {
			c.Src = rapid.StringOfN(rapid.RuneFrom([]rune("abm1 (){}[],:@-+*/%^=!~<>\"'`#.0159_xe\n\\")), 0, 24, -1).Draw(t, "ascii-src")
		} else {
			c.Src = string(rapid.SliceOfN(rapid.Byte(), 0, 16).Draw(t, "raw-src"))
		}
	}
	return c
}

var (
	tyPosRange = reflect.TypeOf(posrange.PositionRange{})
	tyPos      = reflect.TypeOf(posrange.Pos(0))
	tyMatcherP = reflect.TypeOf((*labels.Matcher)(nil))
	tyFuncP    = reflect.TypeOf((*parser.Function)(nil))
)

// astDiff compares two parse results structurally by reflection, ignoring source
// positions and evaluation-time fields; floats are compared bitwise with NaN == NaN;
// label matchers as (type, name, value) irrespective of order. Returns "" when equal.
func astDiff(a, b reflect.Value, path string) string {
	if a.IsValid() != b.IsValid() {
		return path + ": one side missing"
	}
	if !a.IsValid() {
		return ""
	}
	if a.Type() != b.Type() {
		return fmt.Sprintf("%s: type %v vs %v", path, a.Type(), b.Type())
	}
	switch a.Type() {
	case tyPosRange, tyPos:
		return ""
	case tyMatcherP:
		ma, mb := a.Interface().(*labels.Matcher), b.Interface().(*labels.Matcher)
		if (ma == nil) != (mb == nil) {
			return path + ": nil matcher"
		}
		if ma != nil && (ma.Type != mb.Type || ma.Name != mb.Name || ma.Value != mb.Value) {
			return fmt.Sprintf("%s: matcher %s vs %s", path, ma, mb)
		}
		return ""
	case tyFuncP:
		fa, fb := a.Interface().(*parser.Function), b.Interface().(*parser.Function)
		if (fa == nil) != (fb == nil) || (fa != nil && fa.Name != fb.Name) {
			return path + ": function differs"
		}
		return ""
	}
	switch a.Kind() {
	case reflect.Interface, reflect.Pointer:
		if a.IsNil() != b.IsNil() {
			return fmt.Sprintf("%s: nil vs non-nil (%v / %v)", path, a.IsNil(), b.IsNil())
		}
		if a.IsNil() {
			return ""
		}
		return astDiff(a.Elem(), b.Elem(), path)
	case reflect.Struct:
		for i := 0; i < a.NumField(); i++ {
			f := a.Type().Field(i)
			if f.Name == "UnexpandedSeriesSet" || f.Name == "Series" {
				continue // populated at query preparation time, not by the parser
			}
			if !f.IsExported() {
				continue
			}
			if d := astDiff(a.Field(i), b.Field(i), path+"."+f.Name); d != "" {
				return d
			}
		}
		return ""
	case reflect.Slice:
		if a.Len() != b.Len() {
			return fmt.Sprintf("%s: length %d vs %d", path, a.Len(), b.Len())
		}
		if a.Type().Elem() == tyMatcherP {
			sa, sb := matcherKeys(a), matcherKeys(b)
			for i := range sa {
				if sa[i] != sb[i] {
					return fmt.Sprintf("%s: matchers %q vs %q", path, sa, sb)
				}
			}
			return ""
		}
		for i := 0; i < a.Len(); i++ {
			if d := astDiff(a.Index(i), b.Index(i), fmt.Sprintf("%s[%d]", path, i)); d != "" {
				return d
			}
		}
		return ""
	case reflect.Float64:
		fa, fb := a.Float(), b.Float()
		if math.IsNaN(fa) && math.IsNaN(fb) {
			return ""
		}
		if math.Float64bits(fa) != math.Float64bits(fb) {
			return fmt.Sprintf("%s: %v (%#x) vs %v (%#x)", path, fa, math.Float64bits(fa), fb, math.Float64bits(fb))
		}
		return ""
	case reflect.String:
		if a.String() != b.String() {
			return fmt.Sprintf("%s: %q vs %q", path, a.String(), b.String())
		}
		return ""
	case reflect.Bool:
		if a.Bool() != b.Bool() {
			return fmt.Sprintf("%s: %v vs %v", path, a.Bool(), b.Bool())
		}
		return ""
	case reflect.Int, reflect.Int8, reflect.Int16, reflect.Int32, reflect.Int64:
		if a.Int() != b.Int() {
			return fmt.Sprintf("%s: %d vs %d", path, a.Int(), b.Int())
		}
		return ""
	case reflect.Uint, reflect.Uint8, reflect.Uint16, reflect.Uint32, reflect.Uint64:
		if a.Uint() != b.Uint() {
			return fmt.Sprintf("%s: %d vs %d", path, a.Uint(), b.Uint())
		}
		return ""
	}
	return fmt.Sprintf("%s: unhandled kind %v", path, a.Kind())
}

func matcherKeys(v reflect.Value) []string {
	out := make([]string, v.Len())
	for i := range out {
		m := v.Index(i).Interface().(*labels.Matcher)
		if m == nil {
			out[i] = "<nil>"
			continue
		}
		out[i] = fmt.Sprintf("%d\x00%s\x00%s", m.Type, m.Name, m.Value)
	}
	sort.Strings(out)
	return out
}

func exprDiff(a, b parser.Expr) string {
	return astDiff(reflect.ValueOf(&a).Elem(), reflect.ValueOf(&b).Elem(), "expr")
}

type c26Stats struct {
	depth              int
	modifier, quoted   bool
	kinds              map[string]bool
	subMsDuration      bool
	durationNumLiteral bool
	// a duration-flavoured number literal whose printed form loses a millisecond
	durLiteralTruncates bool
	// +Inf literal as the direct left operand of ^
	plusInfBeforePow bool
	// an offset written as a duration expression is the last thing printed before an
	// arithmetic binary operator
	offsetExprBeforeArith bool
	// an offset that is an unparenthesised binary duration expression starting with a plain literal
	offsetBinExprLiteralFirst bool
	// a range / step / offset of math.MinInt64 ns: what "offset NaN" or "[NaN]" is converted to
	nanDuration bool
	// a duration expression holds an unparenthesised unary plus (DurationExpr{Op: ADD, LHS: nil}),
	// which the printer deliberately omits
	durUnaryPlus bool
	// a duration-flavoured number literal with the value -0 ("-0m")
	negZeroDuration bool
}

// c26RightmostOffsetExpr reports whether the last thing printed for e is an offset given
// as a duration expression (not a plain literal).
func c26RightmostOffsetExpr(e parser.Expr) bool {
	for {
		switch x := e.(type) {
		case *parser.BinaryExpr:
			e = x.RHS
		case *parser.UnaryExpr:
			e = x.Expr
		case *parser.VectorSelector:
			return x.OriginalOffsetExpr != nil
		case *parser.MatrixSelector:
			return x.VectorSelector.(*parser.VectorSelector).OriginalOffsetExpr != nil
		case *parser.SubqueryExpr:
			return x.OriginalOffsetExpr != nil
		default:
			return false
		}
	}
}

// c26OffsetLiteralFirst: "offset --30s + 0" is parsed as one duration expression (30s + 0)
// because of the leading sign; printed as "offset 30s + 0" the grammar ends the offset at
// the literal and takes "+ 0" as a binary operator on the selector.
func c26OffsetLiteralFirst(d *parser.DurationExpr) bool {
	if d == nil {
		return false
	}
	// descend along what is printed first: a literal, step(), range() or min_of/max_of(...),
	// possibly behind a sign, is a complete offset on its own for the grammar's
	// offset_duration_expr rule; a binary operator after it is then taken as PromQL operator
	sawBinary := false
	var l parser.Expr = d
	for {
		de, ok := l.(*parser.DurationExpr)
		if !ok {
			break
		}
		if de.Wrapped {
			return false
		}
		switch de.Op {
		case parser.STEP, parser.RANGE, parser.MIN_OF, parser.MAX_OF:
			return sawBinary
		case parser.ADD, parser.SUB, parser.MUL, parser.DIV, parser.MOD, parser.POW:
			if de.LHS == nil {
				if de.RHS == nil {
					return false
				}
				l = de.RHS // unary sign
				continue
			}
			sawBinary = true
		default:
			return false
		}
		l = de.LHS
	}
	_, isLit := l.(*parser.NumberLiteral)
	return isLit && sawBinary
}

func c26Inspect(e parser.Expr) c26Stats {
	st := c26Stats{kinds: map[string]bool{}}
	legacy := func(s string) bool { return model.LegacyValidation.IsValidLabelName(s) }
	numLit := func(x *parser.NumberLiteral) {
		if x.Duration {
			st.durationNumLiteral = true
			st.kinds["NumberLiteral:duration"] = true
			if v := math.Abs(x.Val); v < 9.2e9 && int64(v*1e9)/1e6 != int64(math.Round(v*1e3)) {
				st.durLiteralTruncates = true
			}
			if x.Val == 0 && math.Signbit(x.Val) {
				st.negZeroDuration = true
			}
		}
	}
	var durExpr func(e parser.Expr)
	durExpr = func(e parser.Expr) {
		switch x := e.(type) {
		case *parser.DurationExpr:
			if x == nil {
				return
			}
			st.kinds["DurationExpr"] = true
			if x.LHS == nil && x.RHS != nil && x.Op == parser.ADD && !x.Wrapped {
				st.durUnaryPlus = true
			}
			if x.LHS != nil {
				durExpr(x.LHS)
			}
			if x.RHS != nil {
				durExpr(x.RHS)
			}
		case *parser.NumberLiteral:
			numLit(x)
		}
	}
	parser.Inspect(e, func(n parser.Node, path []parser.Node) error {
		if n == nil {
			return nil
		}
		if d := len(path) + 1; d > st.depth {
			st.depth = d
		}
		k := strings.TrimPrefix(fmt.Sprintf("%T", n), "*parser.")
		st.kinds[k] = true
		switch x := n.(type) {
		case *parser.VectorSelector:
			if x.OriginalOffset != 0 || x.OriginalOffsetExpr != nil {
				st.modifier = true
				st.kinds["mod:offset"] = true
			}
			if x.Timestamp != nil || x.StartOrEnd != 0 {
				st.modifier = true
				st.kinds["mod:at"] = true
			}
			if x.Anchored || x.Smoothed {
				st.modifier = true
				st.kinds["mod:anchored/smoothed"] = true
			}
			durExpr(x.OriginalOffsetExpr)
			if c26OffsetLiteralFirst(x.OriginalOffsetExpr) {
				st.offsetBinExprLiteralFirst = true
			}
			for _, m := range x.LabelMatchers {
				if m == nil {
					continue
				}
				if m.Name == labels.MetricName && !model.LegacyValidation.IsValidMetricName(m.Value) && m.Type == labels.MatchEqual {
					st.quoted = true
				}
				if !legacy(m.Name) {
					st.quoted = true
				}
			}
			if x.OriginalOffset%1e6 != 0 {
				st.subMsDuration = true
			}
			if x.OriginalOffset == math.MinInt64 {
				st.nanDuration = true
			}
		case *parser.MatrixSelector:
			durExpr(x.RangeExpr)
			if x.Range%1e6 != 0 {
				st.subMsDuration = true
			}
			if x.Range == math.MinInt64 {
				st.nanDuration = true
			}
		case *parser.SubqueryExpr:
			if x.OriginalOffset != 0 || x.OriginalOffsetExpr != nil || x.Timestamp != nil || x.StartOrEnd != 0 {
				st.modifier = true
				st.kinds["mod:subquery-offset/at"] = true
			}
			durExpr(x.RangeExpr)
			durExpr(x.StepExpr)
			durExpr(x.OriginalOffsetExpr)
			if c26OffsetLiteralFirst(x.OriginalOffsetExpr) {
				st.offsetBinExprLiteralFirst = true
			}
			if x.Range%1e6 != 0 || x.Step%1e6 != 0 || x.OriginalOffset%1e6 != 0 {
				st.subMsDuration = true
			}
			if x.Range == math.MinInt64 || x.Step == math.MinInt64 || x.OriginalOffset == math.MinInt64 {
				st.nanDuration = true
			}
		case *parser.BinaryExpr:
			if vm := x.VectorMatching; vm != nil {
				if vm.On || len(vm.MatchingLabels) > 0 {
					st.modifier = true
					st.kinds["mod:on/ignoring"] = true
				}
				if vm.Card == parser.CardManyToOne || vm.Card == parser.CardOneToMany {
					st.modifier = true
					st.kinds["mod:group"] = true
				}
				if vm.FillValues.LHS != nil || vm.FillValues.RHS != nil {
					st.modifier = true
					st.kinds["mod:fill"] = true
				}
				for _, l := range append(append([]string{}, vm.MatchingLabels...), vm.Include...) {
					if !legacy(l) {
						st.quoted = true
					}
				}
			}
			if x.ReturnBool {
				st.kinds["mod:bool"] = true
			}
			if nl, ok := x.LHS.(*parser.NumberLiteral); ok && x.Op == parser.POW && math.IsInf(nl.Val, 1) {
				st.plusInfBeforePow = true
			}
			switch x.Op {
			case parser.ADD, parser.SUB, parser.MUL, parser.DIV, parser.MOD, parser.POW:
				if c26RightmostOffsetExpr(x.LHS) {
					st.offsetExprBeforeArith = true
				}
			}
		case *parser.AggregateExpr:
			for _, l := range x.Grouping {
				if !legacy(l) {
					st.quoted = true
				}
			}
			if x.Without || len(x.Grouping) > 0 {
				st.kinds["agg:by/without"] = true
			}
			if x.Param != nil {
				st.kinds["agg:param"] = true
			}
		case *parser.NumberLiteral:
			numLit(x)
		}
		return nil
	})
	return st
}

// c26KnownSig maps a structural difference to a root-cause signature, by a predicate on
// the parsed input and the differing field only.
func c26KnownSig(st c26Stats, diff string) string {
	field := diff[:strings.IndexByte(diff+":", ':')]
	switch {
	case st.nanDuration:
		// "offset NaN" / "[NaN]" pass the range checks and become time.Duration(math.MinInt64)
		return "nan-duration-accepted"
	case st.negZeroDuration && strings.HasSuffix(field, ".Val"):
		// NumberLiteral{Val: -0, Duration: true} prints "0s": the sign test is Val < 0
		return "negative-zero-duration-literal-printed-unsigned"
	case st.durUnaryPlus:
		// "offset + step()" is DurationExpr{ADD, RHS: step()}; printed as "offset step()" it comes
		// back as DurationExpr{STEP}, and a following operator may change sides
		return "duration-expr-unary-plus-not-printed"
	case st.subMsDuration && (strings.HasSuffix(field, ".Range") || strings.HasSuffix(field, ".Step") || strings.HasSuffix(field, ".OriginalOffset")):
		// range / step / offset given as a number of seconds with a sub-millisecond part:
		// the printer goes through model.Duration, which has millisecond resolution
		return "print-drops-sub-millisecond-duration"
	case st.durLiteralTruncates && strings.HasSuffix(field, ".Val"):
		// NumberLiteral{Duration:true}.String() computes model.Duration(Val*1e9): the float product
		// falls just below the integer for many millisecond values (1s1ms -> 1.001*1e9 =
		// 1000999999.9999999) and the conversion truncates, dropping the last millisecond
		return "duration-literal-print-truncates-float"
	case st.plusInfBeforePow && strings.Contains(diff, "*parser.BinaryExpr vs *parser.UnaryExpr"):
		// +Inf is printed with its sign; in front of ^ the sign then binds to the whole power
		return "plus-inf-printed-with-sign-before-pow"
	case st.offsetExprBeforeArith:
		// the swallowed operator re-associates the surrounding expression, so the first
		// differing field can be anywhere (an Op, a type, the offset expression itself)
		// "x offset +min_of(a, b) ^ 0" is (x offset ...) ^ 0, but printed without the sign the
		// duration-expression grammar takes "^ 0" as part of the offset
		return "offset-duration-expr-swallows-following-operator"
	case st.offsetBinExprLiteralFirst:
		return "offset-binary-duration-expr-reparsed-as-binary-operator"
	}
	return ""
}

func c26Parse(p parser.Parser, s string) (e parser.Expr, err error, panicked any) {
	defer func() {
		if r := recover(); r != nil {
			panicked = r
		}
	}()
	e, err = p.ParseExpr(s)
	return e, err, nil
}

func runC26(c c26Case, r *ev.Rec) error {
	p := parser.NewParser(c26Options(c.Opts & 15))
	r.Class("kind:" + c.Kind)
	r.Class(fmt.Sprintf("opts:%04b", c.Opts&15))
	e1, err, pn := c26Parse(p, c.Src)
	if pn != nil {
		return ev.Failf("ParseExpr(%q) [opts %04b] panicked: %v", c.Src, c.Opts, pn)
	}
	if err != nil {
		if errors.Is(err, parser.ErrUnexpected) {
			return ev.Failf("ParseExpr(%q) [opts %04b] failed with the internal error %q (a runtime panic inside the parser)", c.Src, c.Opts, err)
		}
		var pe parser.ParseErrors
		var pe1 *parser.ParseErr
		if !errors.As(err, &pe) && !errors.As(err, &pe1) {
			return ev.Failf("ParseExpr(%q) [opts %04b] returned an error that is not a parse error: %T %v", c.Src, c.Opts, err, err)
		}
		r.Class("rejected:" + c.Kind)
		if c.Kind == "mut" || c.Kind == "seedmut" || c.Kind == "bytes" {
			// totality part: a rejected mutated / random input is a useful case when it is not trivially short
			if len(c.Src) >= 8 {
				r.NonTrivial()
			}
		}
		return nil
	}
	if e1 == nil {
		return ev.Failf("ParseExpr(%q) returned neither expression nor error", c.Src)
	}
	r.Class("accepted:" + c.Kind)
	st := c26Inspect(e1)
	for k := range st.kinds {
		r.Class("node:" + k)
	}
	if st.quoted {
		r.Class("quoted-name")
	}
	if st.depth >= 3 && (st.modifier || st.quoted) {
		r.NonTrivial()
	}
	if st.depth >= 5 {
		r.Class("depth>=5")
	}

	s1 := e1.String()
	e2, err, pn := c26Parse(p, s1)
	if pn != nil {
		return ev.Failf("source %q printed as %q; parsing that panicked: %v", c.Src, s1, pn)
	}
	if err != nil {
		if c.Opts&2 == 0 && st.kinds["DurationExpr"] {
			// "offset +(30s)" goes through a grammar rule that does not check the feature flag; the
			// printed "offset (30s)" goes through one that does
			return ev.FailSig("duration-expr-accepted-while-disabled", "source %q [opts %04b] parses, but its printed form %q does not: %v", c.Src, c.Opts, s1, err)
		}
		if st.nanDuration {
			return ev.FailSig("nan-duration-accepted", "source %q [opts %04b] parses, but its printed form %q does not: %v", c.Src, c.Opts, s1, err)
		}
		if st.durUnaryPlus {
			return ev.FailSig("duration-expr-unary-plus-not-printed", "source %q [opts %04b] parses, but its printed form %q does not: %v", c.Src, c.Opts, s1, err)
		}
		if st.offsetBinExprLiteralFirst && c.Opts&2 != 0 {
			return ev.FailSig("offset-binary-duration-expr-reparsed-as-binary-operator", "source %q [opts %04b] parses, but its printed form %q does not: %v", c.Src, c.Opts, s1, err)
		}
		if st.offsetExprBeforeArith && c.Opts&2 != 0 {
			// "x offset (30s) + y": the duration-expression grammar swallows the operator
			return ev.FailSig("offset-duration-expr-swallows-following-operator", "source %q [opts %04b] parses, but its printed form %q does not: %v", c.Src, c.Opts, s1, err)
		}
		return ev.Failf("source %q [opts %04b] parses, but its printed form %q does not: %v", c.Src, c.Opts, s1, err)
	}
	if d := exprDiff(e1, e2); d != "" {
		if sig := c26KnownSig(st, d); sig != "" {
			return ev.FailSig(sig, "source %q [opts %04b] printed as %q parses to a different expression: %s", c.Src, c.Opts, s1, d)
		}
		return ev.Failf("source %q [opts %04b] printed as %q parses to a different expression: %s", c.Src, c.Opts, s1, d)
	}
	if s2 := e2.String(); s2 != s1 {
		return ev.Failf("source %q: printed form is not a fixed point: %q then %q", c.Src, s1, s2)
	}
	pretty := parser.Prettify(e1)
	if len(s1) > 100 {
		r.Class("pretty-split")
	}
	e3, err, pn := c26Parse(p, pretty)
	if pn != nil {
		return ev.Failf("source %q prettified as %q; parsing that panicked: %v", c.Src, pretty, pn)
	}
	if err != nil {
		return ev.Failf("source %q [opts %04b] parses, but its prettified form %q does not: %v", c.Src, c.Opts, pretty, err)
	}
	if d := exprDiff(e1, e3); d != "" {
		return ev.Failf("source %q [opts %04b] prettified as %q parses to a different expression: %s", c.Src, c.Opts, pretty, d)
	}
	return nil
}

func TestC26(t *testing.T) {
	ev.Check(t, "C26",
		"expression strings from the structural generator internal/pqlgen (plain and 'exotic' spellings: quoted UTF-8 names, keywords as names, all string/number/duration forms, modifiers in any order, duration expressions, every function of parser.Functions) plus token-level mutations of generated strings and of promqltest's built-in expressions and random byte strings, each under one of the 16 parser.Options sets; accepted inputs are printed, re-parsed, compared structurally (positions ignored), re-printed, prettified and re-parsed; rejected ones must fail with a parse error, never ErrUnexpected or a panic. Non-trivial: accepted with AST depth >= 3 and at least one modifier (offset/@/anchored/smoothed/on/ignoring/group/fill) or a name needing quotes; or a rejected mutated/random input of >= 8 bytes; distinct by (kind, options, source).",
		genC26, runC26)
}
