package pqlpure

import (
	"fmt"
	"math"
	"sort"
	"strconv"
	"testing"

	"github.com/prometheus/prometheus/promql"
	"pgregory.net/rapid"

	"verifharness/internal/ev"
	"verifharness/internal/gen"
)

// C34 — complementary limit_ratio selections partition the input.

type c34Case struct {
	Kind string // probe engine
	R    uint64 // ratio in [0,1], float bits
	R2   uint64 // second ratio for monotonicity
	O    uint64 // probe: an extra sampling offset in [0,1)
	// engine
	Series  []gen.Lset `json:",omitempty"`
	Vals    []uint64   `json:",omitempty"`
	Alt     []int      `json:",omitempty"` // indexes of Series also present in the second data set
	AltVals []uint64   `json:",omitempty"`
	Extra   []gen.Lset `json:",omitempty"` // companions only present in the second data set
	By      string     `json:",omitempty"`
	T1, T2  int64
}

func genRatio(t *rapid.T, label string) float64 {
	switch rapid.IntRange(0, 7).Draw(t, label+"class") {
	case 0:
		return float64(rapid.IntRange(0, 10).Draw(t, label+"tenth")) / 10
	case 1:
		return float64(rapid.IntRange(0, 16).Draw(t, label+"sixteenth")) / 16
	case 2:
		return math.Ldexp(1, -rapid.IntRange(2, 60).Draw(t, label+"tinyexp")) * float64(rapid.IntRange(1, 3).Draw(t, label+"tinymul"))
	case 3:
		return 1 - math.Ldexp(1, -rapid.IntRange(1, 53).Draw(t, label+"oneminus"))
	case 4:
		return float64(rapid.IntRange(0, 1000).Draw(t, label+"permille")) / 1000
	default:
		return rapid.Float64Range(0, 1).Draw(t, label+"f")
	}
}

func genC34(t *rapid.T) c34Case {
	c := c34Case{Kind: "probe"}
	r1, r2 := genRatio(t, "r"), genRatio(t, "r2")
	c.R, c.R2 = gen.B(r1), gen.B(r2)
	if rapid.IntRange(0, 9).Draw(t, "kind") < 3 {
		c.Kind = "engine"
	}
	if c.Kind == "probe" {
		o := rapid.Float64Range(0, 1).Draw(t, "o")
		if o >= 1 {
			o = math.Nextafter(1, 0)
		}
		c.O = gen.B(o)
		return c
	}
	n := rapid.IntRange(1, 40).Draw(t, "n")
	if rapid.IntRange(0, 5).Draw(t, "big") == 0 {
		n = rapid.IntRange(41, 200).Draw(t, "nbig")
	}
	for i := 0; i < n; i++ {
		ls := gen.SmallLset(false, 2).Draw(t, "ls")
		ls = append(ls, [2]string{"__name__", "m"}, [2]string{"i", strconv.Itoa(i)})
		sort.Slice(ls, func(a, b int) bool { return ls[a][0] < ls[b][0] })
		c.Series = append(c.Series, ls)
		c.Vals = append(c.Vals, gen.FiniteFloatBits().Draw(t, "v"))
		if rapid.Bool().Draw(t, "inalt") {
			c.Alt = append(c.Alt, i)
			av := gen.FloatBits().Draw(t, "altv")
			if av == gen.StaleNaNBits {
				av = gen.NormalNaNBits // a stale marker would remove the series from the input vector
			}
			c.AltVals = append(c.AltVals, av)
		}
	}
	for i, k := 0, rapid.IntRange(0, 10).Draw(t, "nextra"); i < k; i++ {
		c.Extra = append(c.Extra, gen.Lset{{"__name__", "m"}, {"x", strconv.Itoa(i)}})
	}
	c.By = rapid.SampledFrom([]string{"", "", " by (a)", " without (i)", " by (i)"}).Draw(t, "by")
	c.T1 = int64(rapid.IntRange(0, 1000).Draw(t, "t1")) * 1000
	c.T2 = int64(rapid.IntRange(0, 1000000).Draw(t, "t2"))
	return c
}

// complementSum is what the sampler compares offsets with for a negative ratio: fl(1 + fl(r-1)).
func complementSum(r float64) float64 { return 1.0 + (r - 1) }

// inRoundingGap: the offset lies in the half-open interval between r and fl(1+fl(r-1))
// (lower end included: "o < r" and "o >= 1+(r-1)" both fail or both hold exactly there).
func inRoundingGap(r, o float64) bool {
	s := complementSum(r)
	lo, hi := math.Min(r, s), math.Max(r, s)
	return lo != hi && o >= lo && o < hi
}

func ulpSteps(x float64, k int) float64 {
	for ; k > 0; k-- {
		x = math.Nextafter(x, math.Inf(1))
	}
	for ; k < 0; k++ {
		x = math.Nextafter(x, math.Inf(-1))
	}
	return x
}

func runC34(c c34Case, r *ev.Rec) error {
	r.Class("kind:" + c.Kind)
	if c.Kind == "engine" {
		return runC34Engine(c, r)
	}
	s := promql.NewHashRatioSampler()
	ratio, ratio2 := gen.F(c.R), gen.F(c.R2)
	comp := ratio - 1 // the ratio a user writes for the complement
	var offsets []float64
	for _, b := range []float64{ratio, complementSum(ratio), ratio2} {
		for k := -6; k <= 6; k++ {
			offsets = append(offsets, ulpSteps(b, k))
		}
	}
	offsets = append(offsets, 0, math.Nextafter(1, 0), 0.5, gen.F(c.O))
	if complementSum(ratio) != ratio {
		r.Class("ratio-with-rounding-gap")
	} else {
		r.Class("ratio-without-rounding-gap")
	}
	var gapFail error
	for _, o := range offsets {
		if !(o >= 0 && o < 1) {
			continue // SampleOffset is documented to return [0, 1)
		}
		a, b := s.AddRatioSampleWithOffset(ratio, o), s.AddRatioSampleWithOffset(comp, o)
		if a == b {
			which := "neither"
			if a {
				which = "both"
			}
			msg := fmt.Sprintf("offset %v (%#x) is selected by %s of limit_ratio(%v) and limit_ratio(%v) [1+(r-1) = %v]", o, gen.B(o), which, ratio, comp, complementSum(ratio))
			if inRoundingGap(ratio, o) {
				if gapFail == nil {
					gapFail = ev.FailSig("limit-ratio-complement-rounding", "%s", msg)
				}
				continue
			}
			return ev.Failf("%s", msg)
		}
		// selection by r is "offset < r"; the complement is everything else
		if a != (o < ratio) {
			return ev.Failf("offset %v: limit_ratio(%v) selected=%v, documented rule offset < ratio says %v", o, ratio, a, o < ratio)
		}
		// monotone: raising r never deselects
		lo, hi := math.Min(ratio, ratio2), math.Max(ratio, ratio2)
		if s.AddRatioSampleWithOffset(lo, o) && !s.AddRatioSampleWithOffset(hi, o) {
			return ev.Failf("offset %v selected by ratio %v but not by the larger ratio %v", o, lo, hi)
		}
		if math.Abs(o-ratio) <= 2*ulpOf(ratio) || math.Abs(o-complementSum(ratio)) <= 2*ulpOf(ratio) {
			r.NonTrivial()
		}
	}
	return gapFail
}

func ulpOf(x float64) float64 { return math.Nextafter(x, math.Inf(1)) - x }

func runC34Engine(c c34Case, r *ev.Rec) error {
	ratio, ratio2 := gen.F(c.R), gen.F(c.R2)
	q1 := &memQueryable{}
	all := map[string]bool{}
	for i, ls := range c.Series {
		q1.add(ls.Labels(), memSample{t: c.T1, f: gen.F(c.Vals[i])})
		all[ls.Labels().String()] = true
	}
	q2 := &memQueryable{}
	alt := map[string]bool{}
	for k, i := range c.Alt {
		q2.add(c.Series[i].Labels(), memSample{t: c.T2, f: gen.F(c.AltVals[k])})
		alt[c.Series[i].Labels().String()] = true
	}
	for _, ls := range c.Extra {
		q2.add(ls.Labels(), memSample{t: c.T2, f: 1})
	}
	sel := func(q *memQueryable, rr float64, ts int64) (map[string]bool, error) {
		expr := "limit_ratio" + c.By + "(" + fstr(rr) + ", m)"
		res := instant(q, expr, ts)
		if res.Err != nil {
			return nil, fmt.Errorf("%s: %w", expr, res.Err)
		}
		v, err := res.Vector()
		if err != nil {
			return nil, fmt.Errorf("%s: %w", expr, err)
		}
		out := map[string]bool{}
		for _, s := range v {
			k := s.Metric.String()
			if out[k] {
				return nil, fmt.Errorf("%s: series %s returned twice", expr, k)
			}
			out[k] = true
		}
		return out, nil
	}
	a, err := sel(q1, ratio, c.T1)
	if err != nil {
		return ev.Failf("engine: %v", err)
	}
	b, err := sel(q1, ratio-1, c.T1)
	if err != nil {
		return ev.Failf("engine: %v", err)
	}
	sampler := promql.NewHashRatioSampler()
	offsetOf := func(key string) float64 {
		for _, ls := range c.Series {
			l := ls.Labels()
			if l.String() == key {
				return sampler.SampleOffset(&l)
			}
		}
		return math.NaN()
	}
	for k := range a {
		if !all[k] {
			return ev.Failf("limit_ratio(%v) returned %s which is not in the input", ratio, k)
		}
		if b[k] {
			if o := offsetOf(k); inRoundingGap(ratio, o) {
				return ev.FailSig("limit-ratio-complement-rounding", "series %s (offset %v) selected by both limit_ratio(%v) and limit_ratio(%v)", k, o, ratio, ratio-1)
			}
			return ev.Failf("series %s selected by both limit_ratio(%v) and limit_ratio(%v)", k, ratio, ratio-1)
		}
	}
	for k := range b {
		if !all[k] {
			return ev.Failf("limit_ratio(%v) returned %s which is not in the input", ratio-1, k)
		}
	}
	for k := range all {
		if !a[k] && !b[k] {
			if o := offsetOf(k); inRoundingGap(ratio, o) {
				return ev.FailSig("limit-ratio-complement-rounding", "series %s (offset %v) selected by neither limit_ratio(%v) nor limit_ratio(%v)", k, o, ratio, ratio-1)
			}
			return ev.Failf("series %s selected by neither limit_ratio(%v) nor limit_ratio(%v) (%d + %d of %d selected)", k, ratio, ratio-1, len(a), len(b), len(all))
		}
	}
	// labels only: the same series in another data set (other values, timestamp, companions)
	a2, err := sel(q2, ratio, c.T2)
	if err != nil {
		return ev.Failf("engine: %v", err)
	}
	for k := range alt {
		if a[k] != a2[k] {
			return ev.Failf("series %s: selected=%v by limit_ratio(%v) in one data set, %v in another (different values, time and companions)", k, a[k], ratio, a2[k])
		}
	}
	// monotone in r
	lo, hi := math.Min(ratio, ratio2), math.Max(ratio, ratio2)
	sl, err := sel(q1, lo, c.T1)
	if err != nil {
		return ev.Failf("engine: %v", err)
	}
	sh, err := sel(q1, hi, c.T1)
	if err != nil {
		return ev.Failf("engine: %v", err)
	}
	for k := range sl {
		if !sh[k] {
			return ev.Failf("series %s selected by limit_ratio(%v) but not by limit_ratio(%v)", k, lo, hi)
		}
	}
	// the exported sampler and the engine agree
	for _, ls := range c.Series {
		l := ls.Labels()
		want := sampler.AddRatioSampleWithOffset(ratio, sampler.SampleOffset(&l))
		if ratio == 0 {
			want = false
		}
		if a[l.String()] != want {
			return ev.Failf("series %s: engine selected=%v for limit_ratio(%v), exported sampler says %v", l, a[l.String()], ratio, want)
		}
	}
	if len(a) > 0 && len(b) > 0 {
		r.NonTrivial()
	}
	r.Class(fmt.Sprintf("series:%s", sizeClass(len(c.Series))))
	return nil
}

func sizeClass(n int) string {
	switch {
	case n <= 1:
		return "1"
	case n <= 10:
		return "2-10"
	case n <= 40:
		return "11-40"
	}
	return "41-200"
}

func TestC34(t *testing.T) {
	ev.Check(t, "C34",
		"probe cases: a ratio r (tenths, sixteenths, powers of two down to 2^-60, 1-2^-k, permille, uniform) and for each of r, fl(1+fl(r-1)) and a second ratio the 13 offsets within +-6 ulp, plus 0, 0.5, 1-ulp and a uniform offset, through the exported AddRatioSampleWithOffset with r and r-1 (exactly one must select; selection by r is offset < r; raising r never deselects); engine cases: 1-200 distinct series with generated labels and values, limit_ratio(r) and limit_ratio(r-1) with optional by/without must partition the input, agree with the exported sampler, keep the decision for the same series in a second data set with other values/timestamp/companions, and be monotone in r. Non-trivial: probe with an offset within 2 ulp of a boundary; engine case with both selections non-empty; distinct by hash of the case.",
		genC34, runC34)
}
