package pqlpure

import (
	"fmt"
	"math"
	"sort"
	"strconv"
	"testing"

	"github.com/prometheus/prometheus/model/histogram"
	"github.com/prometheus/prometheus/model/labels"
	"github.com/prometheus/prometheus/promql"
	"github.com/prometheus/prometheus/promql/parser/posrange"
	"pgregory.net/rapid"

	"verifharness/internal/ev"
	"verifharness/internal/gen"
)

// C32 — histogram query functions agree with the histograms they describe.

type c32Bucket struct {
	LE    string // as written in the le label
	Count uint64 // float bits
}

type c32Case struct {
	Kind           string // native classic
	H              gen.Hist
	Q1, Q2         uint64 // float bits, Q1 <= Q2 when both are numbers
	L1, U1, L2, U2 uint64 // nested: L2 <= L1, U1 <= U2
	Buckets        []c32Bucket
}

type refBucket struct {
	lower, upper float64
	count        float64
	zero         bool
}

// refBuckets lists the buckets of h in ascending order of value with bounds computed
// independently (spans read directly, bounds 2^(idx*2^-schema) or the custom values).
func refBuckets(h *histogram.FloatHistogram) []refBucket {
	var out []refBucket
	if h.UsesCustomBuckets() {
		m := gen.BucketMap(h.PositiveSpans, h.PositiveBuckets)
		var ks []int
		for k := range m {
			ks = append(ks, int(k))
		}
		sort.Ints(ks)
		for _, k := range ks {
			b := refBucket{lower: math.Inf(-1), upper: math.Inf(1), count: m[int32(k)]}
			if k > 0 {
				b.lower = h.CustomValues[k-1]
			}
			if k < len(h.CustomValues) {
				b.upper = h.CustomValues[k]
			}
			out = append(out, b)
		}
		return out
	}
	neg := gen.BucketMap(h.NegativeSpans, h.NegativeBuckets)
	pos := gen.BucketMap(h.PositiveSpans, h.PositiveBuckets)
	var nk, pk []int
	for k := range neg {
		nk = append(nk, int(k))
	}
	for k := range pos {
		pk = append(pk, int(k))
	}
	sort.Sort(sort.Reverse(sort.IntSlice(nk)))
	sort.Ints(pk)
	for _, k := range nk {
		out = append(out, refBucket{lower: -expUpper(int32(k), h.Schema), upper: -expLower(int32(k), h.Schema), count: neg[int32(k)]})
	}
	if h.ZeroCount != 0 {
		z := refBucket{lower: -h.ZeroThreshold, upper: h.ZeroThreshold, count: h.ZeroCount, zero: true}
		// documented: with only positive (negative) buckets, 0 is the natural lower (upper) bound.
		// Only narrowed here when the other side has no bucket slots at all.
		if len(h.NegativeBuckets) == 0 && len(pk) > 0 {
			z.lower = 0
		}
		if len(h.PositiveBuckets) == 0 && len(nk) > 0 {
			z.upper = 0
		}
		out = append(out, z)
	}
	for _, k := range pk {
		out = append(out, refBucket{lower: expLower(int32(k), h.Schema), upper: expUpper(int32(k), h.Schema), count: pos[int32(k)]})
	}
	return out
}

func fstr(f float64) string {
	switch {
	case math.IsNaN(f):
		return "NaN"
	case math.IsInf(f, 1):
		return "Inf"
	case math.IsInf(f, -1):
		return "-Inf"
	}
	return strconv.FormatFloat(f, 'g', -1, 64)
}

func sameFloat(a, b float64) bool {
	return (math.IsNaN(a) && math.IsNaN(b)) || math.Float64bits(a) == math.Float64bits(b) || (a == 0 && b == 0)
}

func genUnit(t *rapid.T, label string) float64 {
	switch rapid.IntRange(0, 9).Draw(t, label+"class") {
	case 0:
		return rapid.SampledFrom([]float64{0, 1, 0.5, 0.25, 0.75, 0.9, 0.99, 0.999}).Draw(t, label+"const")
	case 1:
		return float64(rapid.IntRange(0, 100).Draw(t, label+"pct")) / 100
	case 2:
		// near one half: the implementation switches iteration direction there
		return 0.5 + float64(rapid.IntRange(-3, 3).Draw(t, label+"ulps"))*0x1p-53
	default:
		return rapid.Float64Range(0, 1).Draw(t, label+"f")
	}
}

func genBound(t *rapid.T, label string) float64 {
	switch rapid.IntRange(0, 9).Draw(t, label+"class") {
	case 0:
		return math.Inf(-1)
	case 1:
		return math.Inf(1)
	case 2:
		return 0
	case 3, 4:
		// a bucket boundary of many schemas / the custom grids
		return rapid.SampledFrom([]float64{-16, -4, -2, -1, -0.5, -0.25, 0.001, 0.25, 0.5, 1, 2, 4, 16, 2.5, 5, 10}).Draw(t, label+"bound")
	default:
		return float64(rapid.IntRange(-4000, 4000).Draw(t, label+"v")) / 64
	}
}

func genC32(t *rapid.T) c32Case {
	c := c32Case{Kind: "native"}
	if rapid.IntRange(0, 2).Draw(t, "kind") == 0 {
		c.Kind = "classic"
	}
	q1, q2 := genUnit(t, "q1"), genUnit(t, "q2")
	if q1 > q2 {
		q1, q2 = q2, q1
	}
	if rapid.IntRange(0, 30).Draw(t, "qodd") == 0 {
		q2 = rapid.SampledFrom([]float64{math.NaN(), -0.5, 1.5, math.Inf(1), math.Inf(-1)}).Draw(t, "qoddv")
	}
	c.Q1, c.Q2 = gen.B(q1), gen.B(q2)
	if c.Kind == "native" {
		o := gen.HistOpts{Float: true, AllowCustom: true, AllowGauge: true, FractionalCounts: true, NaNSum: rapid.IntRange(0, 9).Draw(t, "nansum") == 0}
		if rapid.IntRange(0, 3).Draw(t, "narrowschema") == 0 {
			s := rapid.Int32Range(-2, 2).Draw(t, "schema")
			o.Schema = &s
		}
		c.H = fixZT(gen.Histogram(o).Draw(t, "h"))
		if rapid.IntRange(0, 11).Draw(t, "lowcount") == 7 && !math.IsNaN(gen.F(c.H.Sum)) {
			// a count below what the buckets hold (Validate does not object): only the range laws apply
			c.H.Count = gen.B(gen.F(c.H.Count) * 0.75)
		}
		b := []float64{genBound(t, "b0"), genBound(t, "b1"), genBound(t, "b2"), genBound(t, "b3")}
		sort.Float64s(b)
		c.L2, c.L1, c.U1, c.U2 = gen.B(b[0]), gen.B(b[1]), gen.B(b[2]), gen.B(b[3])
		return c
	}
	n := rapid.IntRange(0, 8).Draw(t, "nbuckets")
	le := float64(rapid.IntRange(-8, 4).Draw(t, "le0")) / 2
	cum := 0.0
	scale := rapid.SampledFrom([]float64{1, 1, 0.1, 1e9}).Draw(t, "cscale")
	for i := 0; i < n; i++ {
		switch rapid.IntRange(0, 11).Draw(t, "cstep") {
		case 0: // non-monotonic
			cum -= float64(rapid.IntRange(1, 5).Draw(t, "cdec"))
			if cum < 0 {
				cum = 0
			}
		case 1, 2: // empty bucket
		case 3:
			// numerically insignificant wobble
			cum *= 1 + float64(rapid.IntRange(-2, 2).Draw(t, "wobble"))*1e-13
		default:
			cum += float64(rapid.IntRange(1, 20).Draw(t, "cinc"))
		}
		cnt := cum * scale
		if rapid.IntRange(0, 60).Draw(t, "cnan") == 37 {
			cnt = rapid.SampledFrom([]float64{math.NaN(), math.Inf(1)}).Draw(t, "cnanv")
		}
		spelling := fstr(le)
		c.Buckets = append(c.Buckets, c32Bucket{LE: spelling, Count: gen.B(cnt)})
		if rapid.IntRange(0, 15).Draw(t, "dup") == 0 {
			// the same upper bound spelled differently: a second series that must be coalesced
			c.Buckets = append(c.Buckets, c32Bucket{LE: strconv.FormatFloat(le, 'e', 3, 64), Count: gen.B(float64(rapid.IntRange(0, 3).Draw(t, "dupc")) * scale)})
		}
		le += float64(rapid.IntRange(1, 12).Draw(t, "lestep")) / 4
	}
	if rapid.IntRange(0, 9).Draw(t, "hasinf") > 0 {
		if rapid.IntRange(0, 3).Draw(t, "infgrow") == 0 {
			cum += float64(rapid.IntRange(0, 10).Draw(t, "infinc"))
		}
		c.Buckets = append(c.Buckets, c32Bucket{LE: "+Inf", Count: gen.B(cum * scale)})
	}
	// series order must not matter
	if len(c.Buckets) > 1 && rapid.IntRange(0, 2).Draw(t, "shuffle") == 0 {
		i, j := rapid.IntRange(0, len(c.Buckets)-1).Draw(t, "si"), rapid.IntRange(0, len(c.Buckets)-1).Draw(t, "sj")
		c.Buckets[i], c.Buckets[j] = c.Buckets[j], c.Buckets[i]
	}
	return c
}

func engineScalarOfVector(res *promql.Result) (float64, int, error) {
	if res.Err != nil {
		return 0, 0, res.Err
	}
	v, err := res.Vector()
	if err != nil {
		return 0, 0, err
	}
	if len(v) == 0 {
		return 0, 0, nil
	}
	if v[0].H != nil {
		return 0, len(v), fmt.Errorf("histogram result")
	}
	return v[0].F, len(v), nil
}

const c32Tol = 1e-9

func leTol(a, b float64) bool {
	if a <= b {
		return true
	}
	return a-b <= c32Tol*math.Max(1, math.Max(math.Abs(a), math.Abs(b)))
}

// acceptable returns the indexes of the populated buckets that can hold rank (with a
// relative tolerance on the cumulative counts).
func acceptable(bs []refBucket, rank, total float64) []int {
	var out []int
	cum := 0.0
	eps := c32Tol * math.Max(total, math.SmallestNonzeroFloat64)
	for i, b := range bs {
		before := cum
		cum += b.count
		if b.count == 0 {
			continue
		}
		if before <= rank+eps && cum >= rank-eps {
			out = append(out, i)
		}
	}
	return out
}

func nearBoundary(bs []refBucket, rank, total float64) bool {
	cum := 0.0
	eps := c32Tol * math.Max(total, math.SmallestNonzeroFloat64)
	for _, b := range bs {
		cum += b.count
		if math.Abs(cum-rank) <= eps {
			return true
		}
	}
	return rank <= eps
}

func runC32(c c32Case, r *ev.Rec) error {
	r.Class("kind:" + c.Kind)
	if c.Kind == "classic" {
		return runC32Classic(c, r)
	}
	h := c.H.FloatH()
	if err := h.Validate(); err != nil {
		r.Discard()
		return nil
	}
	h0 := c.H.FloatH()
	q1, q2 := gen.F(c.Q1), gen.F(c.Q2)
	l1, u1, l2, u2 := gen.F(c.L1), gen.F(c.U1), gen.F(c.L2), gen.F(c.U2)
	bs := refBuckets(h)
	total := 0.0
	npop := 0
	for _, b := range bs {
		total += b.count
		if b.count != 0 {
			npop++
		}
	}
	nanSum := math.IsNaN(h.Sum)
	if nanSum {
		r.Class("nan-sum")
	}
	if h.UsesCustomBuckets() {
		r.Class("custom")
	}
	pos := posrange.PositionRange{}
	// HistogramFraction treats every bucket with lower <= 0 <= upper as "the zero bucket" and
	// moves its lower bound to 0 when there are no negative buckets - which is always the case
	// for custom buckets, so a custom bucket like (-1, 0] or (-1, 1] is collapsed
	customStraddle := false
	if h.UsesCustomBuckets() {
		for _, b := range bs {
			if b.count != 0 && !math.IsInf(b.lower, -1) && b.lower < 0 && b.upper >= 0 {
				customStraddle = true
			}
		}
		if customStraddle {
			r.Class("custom-bucket-straddles-zero")
		}
	}
	fracFail := func(format string, a ...any) error {
		if customStraddle {
			return ev.FailSig("fraction-custom-bucket-straddling-zero-collapsed", format, a...)
		}
		return ev.Failf(format, a...)
	}
	noBounds := h.UsesCustomBuckets() && len(h.CustomValues) == 0
	if noBounds {
		r.Class("custom-no-bounds")
	}

	// engine: one series "h" with the histogram at t=0
	q := &memQueryable{}
	q.add(labels.FromStrings("__name__", "h"), memSample{t: 0, fh: c.H.FloatH()})
	evalF := func(expr string) (float64, error) {
		f, n, err := engineScalarOfVector(instant(q, expr, 0))
		if err != nil {
			return 0, fmt.Errorf("%s: %w", expr, err)
		}
		if n != 1 {
			return 0, fmt.Errorf("%s: %d result samples, want 1", expr, n)
		}
		return f, nil
	}

	// count / sum / avg
	for _, fn := range []struct {
		name string
		want float64
	}{{"histogram_count", h.Count}, {"histogram_sum", h.Sum}, {"histogram_avg", h.Sum / h.Count}} {
		got, err := evalF(fn.name + "(h)")
		if err != nil {
			return ev.Failf("engine: %v", err)
		}
		if !sameFloat(got, fn.want) {
			return ev.Failf("%s(h) = %v, the histogram says %v\n h %v", fn.name, got, fn.want, h0)
		}
	}

	// quantiles
	var qv [2]float64
	for i, qq := range []float64{q1, q2} {
		v, _ := promql.HistogramQuantile(qq, h, "h", pos)
		qv[i] = v
		if d := gen.FloatHistExact(h0, h); d != "" {
			return ev.Failf("HistogramQuantile modified the histogram (%s)", d)
		}
		ve, err := evalF("histogram_quantile(" + fstr(qq) + ", h)")
		if err != nil {
			return ev.Failf("engine: %v", err)
		}
		if !sameFloat(v, ve) {
			return ev.Failf("histogram_quantile(%v, h) through the engine = %v, HistogramQuantile = %v\n h %v", qq, ve, v, h0)
		}
		switch {
		case math.IsNaN(qq):
			if !math.IsNaN(v) {
				return ev.Failf("quantile(NaN) = %v", v)
			}
			continue
		case qq < 0:
			if !math.IsInf(v, -1) {
				return ev.Failf("quantile(%v) = %v, want -Inf", qq, v)
			}
			continue
		case qq > 1:
			if !math.IsInf(v, 1) {
				return ev.Failf("quantile(%v) = %v, want +Inf", qq, v)
			}
			continue
		}
		if h.Count == 0 {
			if !math.IsNaN(v) {
				return ev.Failf("quantile(%v) of an empty histogram = %v", qq, v)
			}
			continue
		}
		if noBounds {
			continue // a single (-Inf,+Inf] bucket: like a classic histogram with only +Inf, no meaningful quantile
		}
		rank := qq * h.Count
		if math.IsNaN(v) {
			if nanSum && (total == 0 || rank > total*(1-c32Tol)) {
				r.Class("nan-quantile-above-buckets")
				continue
			}
			if nanSum {
				// the loop that looks for NaN observations after the bucket was found overwrites
				// `bucket` with the last bucket of the histogram (here an empty one: 0/0)
				return ev.FailSig("nan-sum-quantile-interpolates-in-last-bucket", "quantile(%v) = NaN for a histogram with NaN sum although rank %v is inside the buckets (%v)\n h %v spans %v %v", qq, rank, total, h0, h0.PositiveSpans, h0.NegativeSpans)
			}
			return ev.Failf("quantile(%v) = NaN for a non-empty histogram (rank %v, buckets hold %v)\n h %v", qq, rank, total, h0)
		}
		if nanSum && (total == 0 || rank > total*(1-c32Tol)) {
			continue // at or above the top of the buckets (or no populated bucket at all): NaN observations are "above everything"
		}
		if !nanSum && math.Abs(total-h.Count) > c32Tol*h.Count {
			continue // inconsistent count without NaN observations: containment is not defined by the property
		}
		acc := acceptable(bs, rank, total)
		ok := false
		for _, bi := range acc {
			b := bs[bi]
			lo, up := b.lower, b.upper
			if h.UsesCustomBuckets() && math.IsInf(lo, -1) && up > 0 {
				lo = 0
			}
			if leTol(lo, v) && leTol(v, up) {
				ok = true
				// inverse law: strictly inside a finite bucket, the fraction below the quantile is q
				if !nanSum && v > lo && v < up && !math.IsInf(lo, 0) && !math.IsInf(up, 0) && len(acc) == 1 {
					f, _ := promql.HistogramFraction(math.Inf(-1), v, h, "h", pos)
					if math.Abs(f-qq) > 1e-7 {
						return fracFail("quantile(%v) = %v but fraction(-Inf, %v) = %v\n h %v", qq, v, v, f, h0)
					}
					r.Class("inverse-law-checked")
				}
			}
		}
		if !ok && nanSum {
			return ev.FailSig("nan-sum-quantile-interpolates-in-last-bucket", "quantile(%v) = %v is outside the bucket holding rank %v (acceptable buckets %v of %v)\n h %v", qq, v, rank, acc, bs, h0)
		}
		if !ok {
			return ev.Failf("quantile(%v) = %v is outside the bucket holding rank %v (acceptable buckets %v of %v)\n h %v", qq, v, rank, acc, bs, h0)
		}
	}
	q1ok := !math.IsNaN(q1) && q1 >= 0 && q1 <= 1
	q2ok := !math.IsNaN(q2) && q2 >= 0 && q2 <= 1
	countOK := nanSum || math.Abs(total-h.Count) <= c32Tol*h.Count
	if countOK && q1ok && q2ok && q1 <= q2 && !math.IsNaN(qv[0]) && !math.IsNaN(qv[1]) && !leTol(qv[0], qv[1]) {
		// either branch is fine when both ranks sit on the same bucket boundary
		if !(nearBoundary(bs, q1*h.Count, total) && nearBoundary(bs, q2*h.Count, total) && math.Abs(q2-q1)*h.Count <= 2*c32Tol*total) {
			if nanSum {
				return ev.FailSig("nan-sum-quantile-interpolates-in-last-bucket", "quantile not monotone: q(%v) = %v > q(%v) = %v\n h %v", q1, qv[0], q2, qv[1], h0)
			}
			return ev.Failf("quantile not monotone: q(%v) = %v > q(%v) = %v\n h %v", q1, qv[0], q2, qv[1], h0)
		}
		r.Class("boundary-tie")
	}

	// fractions
	fr := func(l, u float64) (float64, error) {
		f, _ := promql.HistogramFraction(l, u, h, "h", pos)
		fe, err := evalF("histogram_fraction(" + fstr(l) + ", " + fstr(u) + ", h)")
		if err != nil {
			return 0, ev.Failf("engine: %v", err)
		}
		if !sameFloat(f, fe) {
			return 0, ev.Failf("histogram_fraction(%v, %v, h) through the engine = %v, HistogramFraction = %v\n h %v", l, u, fe, f, h0)
		}
		return f, nil
	}
	f1, err := fr(l1, u1)
	if err != nil {
		return err
	}
	f2, err := fr(l2, u2)
	if err != nil {
		return err
	}
	fall, err := fr(math.Inf(-1), math.Inf(1))
	if err != nil {
		return err
	}
	if h.Count == 0 {
		if !math.IsNaN(f1) || !math.IsNaN(f2) || !math.IsNaN(fall) {
			return ev.Failf("fraction of an empty histogram is not NaN: %v %v %v", f1, f2, fall)
		}
		r.Class("empty")
		return nil
	}
	consistent := !nanSum && math.Abs(total-h.Count) <= c32Tol*h.Count
	if !nanSum && !consistent {
		r.Class("count-inconsistent-with-buckets")
	}
	for _, f := range []float64{f1, f2, fall} {
		if math.IsNaN(f) || f < -c32Tol || f > 1+c32Tol {
			return fracFail("fraction %v outside [0,1] (bounds [%v,%v] / [%v,%v])\n h %v", f, l1, u1, l2, u2, h0)
		}
	}
	if consistent && !leTol(f1, f2) {
		return fracFail("fraction not monotone under interval growth: [%v,%v] -> %v but [%v,%v] -> %v\n h %v", l1, u1, f1, l2, u2, f2, h0)
	}
	if consistent && math.Abs(fall-1) > c32Tol {
		return fracFail("fraction(-Inf,+Inf) = %v for a non-empty histogram\n h %v", fall, h0)
	}
	// non-trivial: >= 3 populated buckets and a quantile strictly inside (0,1) or a bound cutting a populated bucket
	cut := false
	for _, b := range bs {
		for _, x := range []float64{l1, u1, l2, u2} {
			if b.count != 0 && x > b.lower && x < b.upper {
				cut = true
			}
		}
	}
	if cut {
		r.Class("bound-cuts-populated-bucket")
	}
	if npop >= 3 && ((q1 > 0 && q1 < 1) || cut) {
		r.NonTrivial()
	}
	return nil
}

func runC32Classic(c c32Case, r *ev.Rec) error {
	q1, q2 := gen.F(c.Q1), gen.F(c.Q2)
	mk := func() promql.Buckets {
		var bs promql.Buckets
		for _, b := range c.Buckets {
			le, _ := strconv.ParseFloat(b.LE, 64)
			bs = append(bs, promql.Bucket{UpperBound: le, Count: gen.F(b.Count)})
		}
		return bs
	}
	if len(c.Buckets) == 0 {
		r.Class("no-buckets")
		return nil // BucketQuantile requires at least one bucket (the engine never calls it without)
	}
	// reference view: sorted, coalesced, monotone envelope
	type rb struct{ le, c float64 }
	var ref []rb
	finite := true
	hasInf := false
	{
		bs := mk()
		sort.SliceStable(bs, func(i, j int) bool { return bs[i].UpperBound < bs[j].UpperBound })
		for _, b := range bs {
			if math.IsNaN(b.Count) || math.IsInf(b.Count, 0) {
				finite = false
			}
			if n := len(ref); n > 0 && ref[n-1].le == b.UpperBound {
				ref[n-1].c += b.Count
			} else {
				ref = append(ref, rb{b.UpperBound, b.Count})
			}
		}
		hasInf = math.IsInf(ref[len(ref)-1].le, 1)
	}
	nonMono := false
	env := make([]float64, len(ref))
	for i := range ref {
		env[i] = ref[i].c
		if i > 0 {
			switch {
			case relEq(env[i], env[i-1], 1e-12):
				env[i] = env[i-1]
			case env[i] < env[i-1]:
				env[i] = env[i-1]
				nonMono = true
			}
		}
	}
	if nonMono {
		r.Class("non-monotonic-counts")
	}
	if !finite {
		r.Class("non-finite-count")
	}
	if !hasInf {
		r.Class("missing-inf-bucket")
	}

	// engine: one float series per bucket
	qb := &memQueryable{}
	seen := map[string]bool{}
	dupSpelling := false
	for _, b := range c.Buckets {
		if seen[b.LE] {
			dupSpelling = true
			continue
		}
		seen[b.LE] = true
		qb.add(labels.FromStrings("__name__", "m_bucket", "le", b.LE), memSample{t: 0, f: gen.F(b.Count)})
	}

	var qv [2]float64
	for i, qq := range []float64{q1, q2} {
		v, _, _, _, _, _ := promql.BucketQuantile(qq, mk())
		qv[i] = v
		if !dupSpelling {
			ve, n, err := engineScalarOfVector(instant(qb, "histogram_quantile("+fstr(qq)+", m_bucket)", 0))
			if err != nil {
				return ev.Failf("engine: histogram_quantile(%v, m_bucket): %v", qq, err)
			}
			if n != 1 {
				return ev.Failf("engine: histogram_quantile(%v, m_bucket) returned %d samples for buckets %v", qq, n, c.Buckets)
			}
			if !sameFloat(v, ve) {
				return ev.Failf("histogram_quantile(%v, m_bucket) through the engine = %v, BucketQuantile = %v\n buckets %v", qq, ve, v, c.Buckets)
			}
		}
		switch {
		case math.IsNaN(qq):
			if !math.IsNaN(v) {
				return ev.Failf("classic quantile(NaN) = %v", v)
			}
			continue
		case qq < 0:
			if !math.IsInf(v, -1) {
				return ev.Failf("classic quantile(%v) = %v, want -Inf", qq, v)
			}
			continue
		case qq > 1:
			if !math.IsInf(v, 1) {
				return ev.Failf("classic quantile(%v) = %v, want +Inf", qq, v)
			}
			continue
		}
		if !hasInf || len(ref) < 2 {
			if !math.IsNaN(v) {
				return ev.Failf("classic quantile(%v) = %v without a usable +Inf bucket (buckets %v)", qq, v, c.Buckets)
			}
			continue
		}
		if !finite {
			continue
		}
		totalObs := env[len(env)-1]
		if totalObs == 0 {
			if !math.IsNaN(v) {
				return ev.Failf("classic quantile(%v) = %v with zero observations", qq, v)
			}
			continue
		}
		if math.IsNaN(v) {
			// rank 0 in an empty first bucket divides 0 by 0; not covered by the property
			r.Class("classic-nan-result")
			continue
		}
		// containment in the bucket holding the rank (after the envelope)
		rank := qq * totalObs
		eps := c32Tol * totalObs
		ok := false
		for b := range env {
			before := 0.0
			if b > 0 {
				before = env[b-1]
			}
			if !(before <= rank+eps && env[b] >= rank-eps) {
				continue
			}
			lo, up := math.Inf(-1), ref[b].le
			if b > 0 {
				lo = ref[b-1].le
			} else if up > 0 {
				lo = 0
			}
			if leTol(lo, v) && leTol(v, up) {
				ok = true
			}
		}
		if !ok {
			return ev.Failf("classic quantile(%v) = %v is outside every bucket that can hold rank %v (envelope %v, bounds %v)", qq, v, rank, env, ref)
		}
	}
	q1ok := !math.IsNaN(q1) && q1 >= 0 && q1 <= 1
	q2ok := !math.IsNaN(q2) && q2 >= 0 && q2 <= 1
	if finite && q1ok && q2ok && q1 <= q2 && !math.IsNaN(qv[0]) && !math.IsNaN(qv[1]) && !leTol(qv[0], qv[1]) {
		return ev.Failf("classic quantile not monotone: q(%v) = %v > q(%v) = %v\n buckets %v", q1, qv[0], q2, qv[1], c.Buckets)
	}
	if len(ref) >= 4 && hasInf && finite && q1 > 0 && q1 < 1 {
		r.NonTrivial()
	}
	return nil
}

func TestC32(t *testing.T) {
	ev.Check(t, "C32",
		"native float histograms from gen.Histogram (negative/zero/positive buckets, schemas -4..8, custom bounds, fractional counts, NaN sums with extra count) with a sorted pair of quantiles (constants, percent grid, +-3 ulp around 0.5, uniform; rarely NaN / out of range) and two nested bound pairs (+-Inf, 0, bucket boundaries, grid values); classic bucket sets (0-8 finite le plus usually +Inf, cumulative counts with decrements, empty buckets, 1e-13 wobble, rare NaN/Inf counts, duplicate le spellings, shuffled). Each evaluated directly (HistogramQuantile / HistogramFraction / BucketQuantile) and through the engine on an in-memory series. Non-trivial: native with >= 3 populated buckets and q1 strictly inside (0,1) or a bound cutting a populated bucket; classic with >= 4 distinct bounds incl. +Inf, finite counts and q1 in (0,1); distinct by hash of the case.",
		genC32, runC32)
}
