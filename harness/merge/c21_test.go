package merge

import (
	"context"
	"errors"
	"fmt"
	"math"
	"sort"
	"strings"
	"testing"
	"unicode/utf8"

	"github.com/prometheus/prometheus/model/exemplar"
	"github.com/prometheus/prometheus/model/labels"
	"github.com/prometheus/prometheus/storage"
	"github.com/prometheus/prometheus/tsdb"
	"pgregory.net/rapid"

	"verifharness/internal/ev"
	"verifharness/internal/gen"
)

// C21 — Exemplar storage keeps the newest accepted exemplars in order.
//
// A generated history of AddExemplar / ValidateExemplar / Resize /
// SetOutOfOrderTimeWindow / Select / IterateExemplars calls is run against
// tsdb.NewCircularExemplarStorage and against a reference model written from the doc
// comments of tsdb/exemplar.go and model/exemplar (a FIFO of accepted exemplars of
// bounded capacity plus one timestamp-ordered list per series).

type c21Matcher struct {
	Type  int // labels.MatchType
	Name  string
	Value string
}

type c21Op struct {
	Kind  string         // add validate resize window select iterate
	S     int            `json:",omitempty"` // series index (add, validate)
	Ts    int64          `json:",omitempty"`
	V     uint64         `json:",omitempty"` // float64 bits
	L     gen.Lset       `json:",omitempty"`
	HasTs bool           `json:",omitempty"`
	N     int64          `json:",omitempty"` // resize: new size; window: new window
	Start int64          `json:",omitempty"`
	End   int64          `json:",omitempty"`
	M     [][]c21Matcher `json:",omitempty"`
}

type c21Case struct {
	Cap    int64
	Window int64
	Series []gen.Lset
	Ops    []c21Op
}

// ---- reference model ---------------------------------------------------------------

type c21Ex struct {
	series int
	ts     int64
	v      float64
	l      labels.Labels
	hasTs  bool
	seq    int
}

type c21Model struct {
	cap    int64
	window int64
	fifo   []*c21Ex         // accepted and retained, in acceptance order
	per    map[int][]*c21Ex // retained exemplars of one series in timestamp order
	seq    int

	// what happened, for the non-trivial rule and the class report
	evictions, oooInserts, resizes int
}

func labelRunes(l labels.Labels) int {
	n := 0
	l.Range(func(x labels.Label) {
		n += utf8.RuneCountInString(x.Name) + utf8.RuneCountInString(x.Value)
	})
	return n
}

// equalsDoc is exemplar.Equals as documented: same labels and value, and the same
// timestamp unless neither exemplar carries its own timestamp.
func equalsDoc(a *c21Ex, e *c21Ex) bool {
	if !labels.Equal(a.l, e.l) {
		return false
	}
	if (a.hasTs || e.hasTs) && a.ts != e.ts {
		return false
	}
	return a.v == e.v
}

// validate returns the documented verdict for e against the current state.
// sameTsDrop reports the "assume duplicate" rule for out-of-order inserts.
func (m *c21Model) validate(e *c21Ex) (err error, sameTsDrop bool) {
	if m.cap <= 0 {
		return storage.ErrExemplarsDisabled, false
	}
	if labelRunes(e.l) > exemplar.ExemplarMaxLabelSetLength {
		return storage.ErrExemplarLabelLength, false
	}
	list := m.per[e.series]
	if len(list) == 0 {
		return nil, false
	}
	newest, oldest := list[len(list)-1], list[0]
	if equalsDoc(newest, e) {
		return storage.ErrDuplicateExemplar, false
	}
	switch {
	case e.ts < newest.ts && e.ts <= newest.ts-m.window:
		return storage.ErrOutOfOrderExemplar, false
	case e.ts == newest.ts && e.v < newest.v:
		return storage.ErrOutOfOrderExemplar, false
	case e.ts == newest.ts && e.v == newest.v && e.l.Hash() < newest.l.Hash():
		return storage.ErrOutOfOrderExemplar, false
	}
	if e.ts >= oldest.ts && e.ts < newest.ts {
		for _, x := range list {
			if x.ts == e.ts {
				return nil, true
			}
		}
	}
	return nil, false
}

func (m *c21Model) removeFromSeries(x *c21Ex) {
	l := m.per[x.series]
	for i := range l {
		if l[i] == x {
			m.per[x.series] = append(l[:i:i], l[i+1:]...)
			break
		}
	}
	if len(m.per[x.series]) == 0 {
		delete(m.per, x.series)
	}
}

// add returns the error AddExemplar must return and a class label.
func (m *c21Model) add(e *c21Ex) (error, string) {
	err, drop := m.validate(e)
	switch {
	case errors.Is(err, storage.ErrDuplicateExemplar):
		return nil, "add:duplicate-noop"
	case err != nil:
		return err, "add:" + short(err)
	case drop:
		return nil, "add:ooo-same-ts-noop"
	}
	class := "add:in-order"
	if l := m.per[e.series]; len(l) > 0 && e.ts < l[len(l)-1].ts {
		m.oooInserts++
		class = "add:ooo-accepted"
		if e.ts < l[0].ts {
			class = "add:ooo-before-oldest"
		}
	}
	if int64(len(m.fifo)) >= m.cap {
		old := m.fifo[0]
		m.fifo = m.fifo[1:]
		m.removeFromSeries(old)
		m.evictions++
		if old.series == e.series {
			class += "+evict-own"
		}
	}
	e.seq = m.seq
	m.seq++
	m.fifo = append(m.fifo, e)
	// place after the last retained exemplar of the series that is not newer
	l := m.per[e.series]
	pos := 0
	for i := len(l) - 1; i >= 0; i-- {
		if l[i].ts <= e.ts {
			pos = i + 1
			break
		}
	}
	l = append(l, nil)
	copy(l[pos+1:], l[pos:])
	l[pos] = e
	m.per[e.series] = l
	return nil, class
}

// resize returns the documented number of migrated exemplars.
func (m *c21Model) resize(n int64) int {
	if n < 0 {
		n = 0
	}
	if n == m.cap {
		return 0
	}
	m.resizes++
	m.cap = n
	for int64(len(m.fifo)) > n {
		old := m.fifo[0]
		m.fifo = m.fifo[1:]
		m.removeFromSeries(old)
		m.evictions++
	}
	return len(m.fifo)
}

func mkMatchers(ms [][]c21Matcher) ([][]*labels.Matcher, error) {
	var out [][]*labels.Matcher
	for _, set := range ms {
		cur := []*labels.Matcher{}
		for _, x := range set {
			mm, err := labels.NewMatcher(labels.MatchType(x.Type), x.Name, x.Value)
			if err != nil {
				return nil, err
			}
			cur = append(cur, mm)
		}
		out = append(out, cur)
	}
	return out, nil
}

type c21Result struct {
	series int
	ex     []*c21Ex
}

func (m *c21Model) selectRef(start, end int64, ms [][]*labels.Matcher, series []labels.Labels) []c21Result {
	var out []c21Result
	if m.cap <= 0 {
		return out
	}
	for s, list := range m.per {
		match := false
		for _, set := range ms {
			all := true
			for _, mm := range set {
				if !mm.Matches(series[s].Get(mm.Name)) {
					all = false
					break
				}
			}
			if all {
				match = true
				break
			}
		}
		if !match {
			continue
		}
		var ex []*c21Ex
		for _, x := range list {
			if x.ts >= start && x.ts <= end {
				ex = append(ex, x)
			}
		}
		if len(ex) > 0 {
			out = append(out, c21Result{s, ex})
		}
	}
	sort.Slice(out, func(i, j int) bool { return labels.Compare(series[out[i].series], series[out[j].series]) < 0 })
	return out
}

func exStr(e exemplar.Exemplar) string {
	return fmt.Sprintf("{ts=%d v=%v(%#x) hasTs=%v l=%s}", e.Ts, e.Value, math.Float64bits(e.Value), e.HasTs, e.Labels.String())
}

func (x *c21Ex) String() string {
	return fmt.Sprintf("{ts=%d v=%v(%#x) hasTs=%v l=%s #%d}", x.ts, x.v, math.Float64bits(x.v), x.hasTs, x.l.String(), x.seq)
}

func sameEx(x *c21Ex, e exemplar.Exemplar) bool {
	return x.ts == e.Ts && math.Float64bits(x.v) == math.Float64bits(e.Value) && x.hasTs == e.HasTs && labels.Equal(x.l, e.Labels)
}

func short(err error) string {
	s := errName(err)
	if len(s) > 14 {
		s = s[:14]
	}
	return s
}

func errName(err error) string {
	if err == nil {
		return "nil"
	}
	return err.Error()
}

// ---- the check ---------------------------------------------------------------------

func runC21(c c21Case, r *ev.Rec) error {
	series := make([]labels.Labels, len(c.Series))
	for i, l := range c.Series {
		series[i] = l.Labels()
		for j := 0; j < i; j++ {
			if labels.Equal(series[i], series[j]) {
				r.Discard()
				return nil
			}
		}
	}
	es, err := tsdb.NewCircularExemplarStorage(c.Cap, tsdb.NewExemplarMetrics(nil), c.Window)
	if err != nil {
		return ev.Failf("NewCircularExemplarStorage(%d, _, %d): %v", c.Cap, c.Window, err)
	}
	ces, ok := es.(*tsdb.CircularExemplarStorage)
	if !ok {
		return ev.Failf("NewCircularExemplarStorage returned %T", es)
	}
	q, err := es.ExemplarQuerier(context.Background())
	if err != nil {
		return ev.Failf("ExemplarQuerier: %v", err)
	}
	m := &c21Model{cap: c.Cap, window: c.Window, per: map[int][]*c21Ex{}}
	if m.cap < 0 {
		m.cap = 0
	}
	if m.window < 0 {
		m.window = 0
	}

	checkSelect := func(step int, start, end int64, raw [][]c21Matcher) error {
		ms, err := mkMatchers(raw)
		if err != nil {
			r.Discard()
			return nil
		}
		got, err := q.Select(start, end, ms...)
		if err != nil {
			return ev.Failf("step %d: Select(%d,%d,%v) error %v", step, start, end, raw, err)
		}
		want := m.selectRef(start, end, ms, series)
		desc := func() string {
			var b strings.Builder
			b.WriteString("want:")
			for _, w := range want {
				fmt.Fprintf(&b, " %s=%v", series[w.series], w.ex)
			}
			b.WriteString(" got:")
			for _, g := range got {
				b.WriteString(" " + g.SeriesLabels.String() + "=[")
				for _, e := range g.Exemplars {
					b.WriteString(exStr(e) + " ")
				}
				b.WriteString("]")
			}
			return b.String()
		}
		if len(got) != len(want) {
			return ev.Failf("step %d: Select(%d,%d,%v) returned %d series, want %d; %s", step, start, end, raw, len(got), len(want), desc())
		}
		for i := range want {
			if !labels.Equal(got[i].SeriesLabels, series[want[i].series]) {
				return ev.Failf("step %d: Select(%d,%d,%v) result %d is series %v, want %v; %s", step, start, end, raw, i, got[i].SeriesLabels, series[want[i].series], desc())
			}
			if len(got[i].Exemplars) != len(want[i].ex) {
				return ev.Failf("step %d: Select(%d,%d,%v) series %v: %d exemplars, want %d; %s", step, start, end, raw, got[i].SeriesLabels, len(got[i].Exemplars), len(want[i].ex), desc())
			}
			for j, x := range want[i].ex {
				if !sameEx(x, got[i].Exemplars[j]) {
					return ev.Failf("step %d: Select(%d,%d,%v) series %v exemplar %d: got %s want %s; %s", step, start, end, raw, got[i].SeriesLabels, j, exStr(got[i].Exemplars[j]), x, desc())
				}
				if j > 0 && got[i].Exemplars[j].Ts < got[i].Exemplars[j-1].Ts {
					return ev.Failf("step %d: Select result for %v not in non-decreasing timestamp order; %s", step, got[i].SeriesLabels, desc())
				}
			}
		}
		return nil
	}
	checkIterate := func(step int) error {
		i := 0
		var ierr error
		err := es.IterateExemplars(func(l labels.Labels, e exemplar.Exemplar) error {
			if ierr != nil {
				return nil
			}
			if i >= len(m.fifo) {
				ierr = ev.Failf("step %d: IterateExemplars yields more than the %d retained exemplars: extra %v %s", step, len(m.fifo), l, exStr(e))
				return nil
			}
			x := m.fifo[i]
			if !labels.Equal(l, series[x.series]) || !sameEx(x, e) {
				ierr = ev.Failf("step %d: IterateExemplars position %d (oldest accepted first): got %v %s, want %v %s (capacity %d, retained %d)", step, i, l, exStr(e), series[x.series], x, m.cap, len(m.fifo))
			}
			i++
			return nil
		})
		if ierr != nil {
			return ierr
		}
		if err != nil {
			return ev.Failf("step %d: IterateExemplars error %v", step, err)
		}
		if i != len(m.fifo) {
			return ev.Failf("step %d: IterateExemplars yielded %d exemplars, want %d (capacity %d); first missing %s", step, i, len(m.fifo), m.cap, m.fifo[i])
		}
		return nil
	}
	all := [][]c21Matcher{{}}

	for step, op := range c.Ops {
		switch op.Kind {
		case "add", "validate":
			if op.S < 0 || op.S >= len(series) {
				r.Discard()
				return nil
			}
			e := exemplar.Exemplar{Labels: op.L.Labels(), Value: gen.F(op.V), Ts: op.Ts, HasTs: op.HasTs}
			x := &c21Ex{series: op.S, ts: op.Ts, v: gen.F(op.V), l: e.Labels, hasTs: op.HasTs}
			if op.Kind == "validate" {
				want, _ := m.validate(x)
				got := ces.ValidateExemplar(series[op.S], e)
				if !errors.Is(got, want) || (want == nil && got != nil) {
					return ev.Failf("step %d: ValidateExemplar(%v, %s) = %s, want %s (window %d, capacity %d, series holds %v)", step, series[op.S], exStr(e), errName(got), errName(want), m.window, m.cap, m.per[op.S])
				}
				r.Class("validate:" + short(want))
				continue
			}
			before := fmt.Sprint(m.per[op.S])
			want, class := m.add(x)
			got := es.AddExemplar(series[op.S], e)
			if !errors.Is(got, want) || (want == nil && got != nil) {
				return ev.Failf("step %d: AddExemplar(%v, %s) = %s, want %s [%s] (window %d, capacity %d, series held %s)", step, series[op.S], exStr(e), errName(got), errName(want), class, m.window, m.cap, before)
			}
			r.Class(class)
		case "resize":
			oldCap, oldLen := m.cap, len(m.fifo)
			want := m.resize(op.N)
			got := ces.Resize(op.N)
			switch {
			case m.cap == oldCap:
				r.Class("resize:same")
			case m.cap == 0:
				r.Class("resize:zero")
			case m.cap > oldCap:
				r.Class("resize:grow")
			case int64(oldLen) > m.cap:
				r.Class("resize:shrink-dropping")
			default:
				r.Class("resize:shrink")
			}
			if got != want {
				return ev.Failf("step %d: Resize(%d) from capacity %d holding %d returned %d migrated, want %d", step, op.N, oldCap, oldLen, got, want)
			}
		case "window":
			if op.N < 0 {
				r.Discard()
				return nil
			}
			m.window = op.N
			ces.SetOutOfOrderTimeWindow(op.N)
			r.Class("window")
		case "select":
			r.Class("select")
			if err := checkSelect(step, op.Start, op.End, op.M); err != nil {
				return err
			}
		case "iterate":
			r.Class("iterate")
			if err := checkIterate(step); err != nil {
				return err
			}
		default:
			r.Discard()
			return nil
		}
	}
	// final state: everything retained, per series and in acceptance order
	if err := checkSelect(len(c.Ops), math.MinInt64, math.MaxInt64, all); err != nil {
		return err
	}
	if err := checkIterate(len(c.Ops)); err != nil {
		return err
	}
	if m.evictions > 0 {
		r.Class("history:eviction")
	}
	if m.evictions > 0 && (m.oooInserts > 0 || m.resizes > 0) {
		r.NonTrivial()
	}
	return nil
}

// ---- generator ---------------------------------------------------------------------

var c21Windows = []int64{20, 0, 5, 100, 0, 5}
var c21Caps = []int64{3, 0, 1, 2, 5, 8, 12, 6, -1, 7, 4}

func genExLabels(t *rapid.T) gen.Lset {
	switch rapid.IntRange(0, 11).Draw(t, "elclass") {
	case 0:
		return gen.Lset{}
	case 1:
		// around the 128-rune limit, with multi-byte runes so that bytes != runes
		n := rapid.IntRange(125, 130).Draw(t, "ellen")
		unit := rapid.SampledFrom([]string{"x", "ü", "日"}).Draw(t, "elunit")
		name := "trace_id"
		return gen.Lset{{name, strings.Repeat(unit, n-len(name))}}
	case 2:
		n := rapid.IntRange(126, 130).Draw(t, "ellen2")
		return gen.Lset{{"a", strings.Repeat("v", 60)}, {"b", strings.Repeat("ü", n-62)}}
	case 3, 4:
		return gen.Lset{{"span", "s"}, {"trace_id", rapid.SampledFrom([]string{"a", "b"}).Draw(t, "tid2")}}
	default:
		return gen.Lset{{"trace_id", rapid.SampledFrom([]string{"a", "b", "c", "d"}).Draw(t, "tid")}}
	}
}

func genExValue(t *rapid.T) uint64 {
	switch rapid.IntRange(0, 9).Draw(t, "evclass") {
	case 0:
		return gen.FloatBits().Draw(t, "evbits")
	default:
		return gen.B(float64(rapid.IntRange(0, 3).Draw(t, "ev")))
	}
}

func genC21Matchers(t *rapid.T, series []gen.Lset) [][]c21Matcher {
	if rapid.IntRange(0, 3).Draw(t, "mall") == 0 {
		return [][]c21Matcher{{}}
	}
	nsets := rapid.IntRange(0, 2).Draw(t, "msets")
	out := [][]c21Matcher{}
	for i := 0; i < nsets; i++ {
		set := []c21Matcher{}
		nm := rapid.IntRange(1, 2).Draw(t, "mn")
		for j := 0; j < nm; j++ {
			s := series[rapid.IntRange(0, len(series)-1).Draw(t, "mseries")]
			name, value := "__name__", "m1"
			if len(s) > 0 {
				p := s[rapid.IntRange(0, len(s)-1).Draw(t, "mlabel")]
				name, value = p[0], p[1]
			}
			typ := rapid.IntRange(0, 3).Draw(t, "mtype")
			if typ >= 2 && rapid.Bool().Draw(t, "mre") {
				value = value + "|zzz"
			}
			set = append(set, c21Matcher{Type: typ, Name: name, Value: value})
		}
		out = append(out, set)
	}
	return out
}

func genC21(t *rapid.T) c21Case {
	c := c21Case{
		Cap:    rapid.SampledFrom(c21Caps).Draw(t, "cap"),
		Window: rapid.SampledFrom(c21Windows).Draw(t, "window"),
	}
	ns := rapid.IntRange(1, 4).Draw(t, "nseries")
	seen := map[string]bool{}
	for i := 0; i < ns*3 && len(c.Series) < ns; i++ {
		l := gen.SmallLset(true, 2).Draw(t, "series")
		if seen[l.Key()] {
			continue
		}
		seen[l.Key()] = true
		c.Series = append(c.Series, l)
	}
	nops := rapid.IntRange(20, 200).Draw(t, "nops")
	curCap, window := c.Cap, c.Window
	maxTs := make([]int64, len(c.Series))       // highest timestamp offered per series
	used := make([][]int64, len(c.Series))      // timestamps offered per series
	var lastAdd = make([]*c21Op, len(c.Series)) // previous add per series (exact duplicates)
	for i := range maxTs {
		maxTs[i] = 1000
	}
	for i := 0; i < nops; i++ {
		k := rapid.IntRange(0, 39).Draw(t, "opclass")
		if curCap <= 0 && rapid.IntRange(0, 3).Draw(t, "revive") > 0 {
			// a disabled storage only answers ErrExemplarsDisabled: usually re-enable it soon
			curCap = int64(rapid.IntRange(1, 8).Draw(t, "revivecap"))
			c.Ops = append(c.Ops, c21Op{Kind: "resize", N: curCap})
			continue
		}
		switch {
		case k == 20:
			var n int64
			switch rapid.IntRange(0, 6).Draw(t, "rsclass") {
			case 2:
				n = 0
			case 3:
				n = curCap
			case 0, 4:
				n = curCap + int64(rapid.IntRange(1, 6).Draw(t, "grow"))
			case 1, 5:
				n = curCap - int64(rapid.IntRange(1, 6).Draw(t, "shrink"))
			default:
				n = int64(rapid.IntRange(-1, 14).Draw(t, "size"))
			}
			c.Ops = append(c.Ops, c21Op{Kind: "resize", N: n})
			if n < 0 {
				n = 0
			}
			curCap = n
		case k == 21:
			window = rapid.SampledFrom(c21Windows).Draw(t, "newwindow")
			c.Ops = append(c.Ops, c21Op{Kind: "window", N: window})
		case k >= 22 && k <= 24:
			lo := int64(rapid.IntRange(960, 1100).Draw(t, "start"))
			hi := lo + int64(rapid.IntRange(-2, 80).Draw(t, "len"))
			if rapid.IntRange(0, 4).Draw(t, "fullrange") == 0 {
				lo, hi = math.MinInt64, math.MaxInt64
			}
			c.Ops = append(c.Ops, c21Op{Kind: "select", Start: lo, End: hi, M: genC21Matchers(t, c.Series)})
		case k == 25:
			c.Ops = append(c.Ops, c21Op{Kind: "iterate"})
		default:
			s := rapid.IntRange(0, len(c.Series)-1).Draw(t, "s")
			op := c21Op{Kind: "add", S: s, HasTs: rapid.IntRange(0, 5).Draw(t, "hasts") > 0}
			if k >= 26 && k <= 28 {
				op.Kind = "validate"
			}
			newest := maxTs[s]
			switch rapid.IntRange(0, 11).Draw(t, "tsclass") {
			case 1, 2, 10:
				op.Ts = newest + int64(rapid.IntRange(1, 10).Draw(t, "fwd"))
			case 3:
				op.Ts = newest
			case 0, 4:
				if window > 1 {
					op.Ts = newest - int64(rapid.Int64Range(1, window-1).Draw(t, "inwin"))
				} else {
					op.Ts = newest - 1
				}
			case 5:
				op.Ts = newest - window + int64(rapid.IntRange(-1, 1).Draw(t, "edge"))
			case 6:
				op.Ts = newest - window - int64(rapid.IntRange(1, 30).Draw(t, "beyond"))
			case 7, 8:
				if len(used[s]) > 0 {
					op.Ts = rapid.SampledFrom(used[s]).Draw(t, "reuse")
				} else {
					op.Ts = newest
				}
			case 9, 11:
				op.Ts = newest - int64(rapid.IntRange(1, 12).Draw(t, "back"))
			default:
				op.Ts = newest + 1
			}
			op.V = genExValue(t)
			op.L = genExLabels(t)
			if la := lastAdd[s]; la != nil && rapid.IntRange(0, 7).Draw(t, "dup") == 0 {
				kind := op.Kind
				op = *la
				op.Kind = kind
				if rapid.IntRange(0, 3).Draw(t, "dupts") == 0 {
					op.Ts += int64(rapid.IntRange(1, 3).Draw(t, "duptsinc")) // duplicate but for the timestamp (HasTs matters)
				}
			}
			if op.Kind == "add" {
				cp := op
				lastAdd[s] = &cp
				if op.Ts > maxTs[s] {
					maxTs[s] = op.Ts
				}
				used[s] = append(used[s], op.Ts)
				if len(used[s]) > 8 {
					used[s] = used[s][1:]
				}
			}
			c.Ops = append(c.Ops, op)
		}
	}
	return c
}

func TestC21(t *testing.T) {
	ev.Check(t, "C21",
		"histories of 20-200 operations on tsdb.NewCircularExemplarStorage(cap -1..12, window 0/5/20/100) over 1-4 series: AddExemplar/ValidateExemplar with timestamps in order, equal, inside / at the edge of / beyond the out-of-order window, equal to earlier timestamps, before the oldest; exact duplicates and duplicates differing only in timestamp (with and without HasTs); exemplar label sets around the 128-rune limit with multi-byte runes; Resize (0, same, grow, shrink), SetOutOfOrderTimeWindow, Select with ranges and matcher sets, IterateExemplars. Every return value and every Select/Iterate result is compared with a reference FIFO+per-series-list model. Non-trivial: an eviction happened and the same history contains an accepted out-of-order insert or an effective resize; distinct by hash of the case.",
		genC21, runC21)
}
