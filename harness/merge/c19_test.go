package merge

import (
	"fmt"
	"sort"
	"testing"

	"github.com/prometheus/prometheus/model/histogram"
	"github.com/prometheus/prometheus/model/labels"
	"github.com/prometheus/prometheus/storage"
	"github.com/prometheus/prometheus/tsdb/chunkenc"
	"github.com/prometheus/prometheus/tsdb/chunks"
	"github.com/prometheus/prometheus/util/annotations"
	"pgregory.net/rapid"

	"verifharness/internal/ev"
	"verifharness/internal/gen"
)

// C19 — Merging series sets de-duplicates without losing data.
//
// Inputs are 0-6 label-sorted series sets over a small pool of label sets and a small
// time universe so that label sets, timestamps and whole chunks collide between inputs.
// The oracle is a map label set -> timestamp -> set of (type,value) candidates built
// directly from the case; nothing of storage/merge.go is used to compute it.

// ---- serialisable case -------------------------------------------------------------

type mPt struct {
	T int64
	V uint64 // K=0: float64 bits; K=1/2: histogram id (see mkHist)
}

// mChunk is a run of samples of one type (one chunk in the chunk modes).
type mChunk struct {
	K uint8 // 0 float, 1 integer histogram, 2 float histogram
	G bool  // histogram chunks: gauge histograms (no counter reset detection)
	S []mPt
}

type mSeries struct {
	L      int // index into Labels (which is sorted by labels.Compare)
	Chunks []mChunk
}

type c19Op struct {
	Seek bool
	T    int64
}

type c19Case struct {
	Mode   string // samples | compact | concat
	Labels []gen.Lset
	Sets   [][]mSeries
	Limit  int
	Progs  [][]c19Op // samples mode: program i%len is run on the i-th merged series, then the rest is drained
	Reuse  bool      // samples mode: pass the previous iterator to Series.Iterator
}

// ---- building real objects ---------------------------------------------------------

type mSample struct {
	t  int64
	f  float64
	h  *histogram.Histogram
	fh *histogram.FloatHistogram
}

func (s mSample) T() int64                      { return s.t }
func (s mSample) ST() int64                     { return 0 }
func (s mSample) F() float64                    { return s.f }
func (s mSample) H() *histogram.Histogram       { return s.h }
func (s mSample) FH() *histogram.FloatHistogram { return s.fh }
func (s mSample) Type() chunkenc.ValueType {
	switch {
	case s.h != nil:
		return chunkenc.ValHistogram
	case s.fh != nil:
		return chunkenc.ValFloatHistogram
	}
	return chunkenc.ValFloat
}

func (s mSample) Copy() chunks.Sample {
	c := mSample{t: s.t, f: s.f}
	if s.h != nil {
		c.h = s.h.Copy()
	}
	if s.fh != nil {
		c.fh = s.fh.Copy()
	}
	return c
}

// mkHist builds the integer histogram with identity id: every count grows with id, so a
// run with non-decreasing ids never contains a counter reset and keeps one bucket layout.
func mkHist(id uint64, gauge bool) *histogram.Histogram {
	h := &histogram.Histogram{
		Schema: 0, ZeroThreshold: 0.001, ZeroCount: id,
		Count: 3*id + 3, Sum: float64(id) * 1.5,
		PositiveSpans:   []histogram.Span{{Offset: 0, Length: 2}},
		PositiveBuckets: []int64{int64(id) + 1, 1},
	}
	if gauge {
		h.CounterResetHint = histogram.GaugeType
	}
	return h
}

func mkSample(k uint8, g bool, p mPt) mSample {
	switch k {
	case 1:
		return mSample{t: p.T, h: mkHist(p.V, g)}
	case 2:
		return mSample{t: p.T, fh: mkHist(p.V, g).ToFloat(nil)}
	}
	return mSample{t: p.T, f: gen.F(p.V)}
}

func chunkSamples(c mChunk) []chunks.Sample {
	out := make([]chunks.Sample, 0, len(c.S))
	for _, p := range c.S {
		out = append(out, mkSample(c.K, c.G, p))
	}
	return out
}

func seriesSamples(s mSeries) []chunks.Sample {
	var out []chunks.Sample
	for _, c := range s.Chunks {
		out = append(out, chunkSamples(c)...)
	}
	return out
}

// cand is one admissible observation at a timestamp.
type cand struct {
	K uint8
	V uint64
}

// obsAt reads the current sample of an iterator in the form of a cand. Histograms are
// identified by comparing against mkHist(id) (counter-reset hints are C12's business and
// are ignored here, including gauge-ness).
func obsAt(it chunkenc.Iterator, vt chunkenc.ValueType) (int64, cand, error) {
	switch vt {
	case chunkenc.ValFloat:
		t, f := it.At()
		if at := it.AtT(); at != t {
			return t, cand{}, ev.Failf("AtT()=%d but At() returned t=%d", at, t)
		}
		return t, cand{0, gen.B(f)}, nil
	case chunkenc.ValHistogram:
		t, h := it.AtHistogram(nil)
		if h == nil {
			return t, cand{}, ev.Failf("AtHistogram returned nil at t=%d", t)
		}
		if at := it.AtT(); at != t {
			return t, cand{}, ev.Failf("AtT()=%d but AtHistogram() returned t=%d", at, t)
		}
		id := h.ZeroCount
		want := mkHist(id, false)
		got := h.Copy()
		got.CounterResetHint = histogram.UnknownCounterReset
		if d := gen.IntHistExact(want, got); d != "" {
			return t, cand{}, ev.Failf("histogram at t=%d is none of the generated ones (field %s): %v", t, d, h)
		}
		return t, cand{1, id}, nil
	case chunkenc.ValFloatHistogram:
		t, fh := it.AtFloatHistogram(nil)
		if fh == nil {
			return t, cand{}, ev.Failf("AtFloatHistogram returned nil at t=%d", t)
		}
		if at := it.AtT(); at != t {
			return t, cand{}, ev.Failf("AtT()=%d but AtFloatHistogram() returned t=%d", at, t)
		}
		id := uint64(fh.ZeroCount)
		want := mkHist(id, false).ToFloat(nil)
		got := fh.Copy()
		got.CounterResetHint = histogram.UnknownCounterReset
		if d := gen.FloatHistExact(want, got); d != "" {
			return t, cand{}, ev.Failf("float histogram at t=%d is none of the generated ones (field %s): %v", t, d, fh)
		}
		return t, cand{2, id}, nil
	}
	return 0, cand{}, ev.Failf("unexpected value type %v", vt)
}

type listSeriesSet struct {
	s []storage.Series
	i int
}

func (l *listSeriesSet) Next() bool                      { l.i++; return l.i < len(l.s) }
func (l *listSeriesSet) At() storage.Series              { return l.s[l.i] }
func (*listSeriesSet) Err() error                        { return nil }
func (*listSeriesSet) Warnings() annotations.Annotations { return nil }

type listChunkSeriesSet struct {
	s []storage.ChunkSeries
	i int
}

func (l *listChunkSeriesSet) Next() bool                      { l.i++; return l.i < len(l.s) }
func (l *listChunkSeriesSet) At() storage.ChunkSeries         { return l.s[l.i] }
func (*listChunkSeriesSet) Err() error                        { return nil }
func (*listChunkSeriesSet) Warnings() annotations.Annotations { return nil }

// ---- reference model ---------------------------------------------------------------

type refSeries struct {
	L  int
	Ts []int64
	At map[int64][]cand
}

func (r *refSeries) add(k uint8, p mPt) {
	if r.At == nil {
		r.At = map[int64][]cand{}
	}
	if _, ok := r.At[p.T]; !ok {
		r.Ts = append(r.Ts, p.T)
	}
	r.At[p.T] = append(r.At[p.T], cand{k, p.V})
}

func (r *refSeries) admits(t int64, c cand) bool {
	for _, x := range r.At[t] {
		if x == c {
			return true
		}
	}
	return false
}

// refMerge returns the expected merged series in label order (index order of the sorted
// label pool) from the given inputs.
func refMerge(sets [][]mSeries) []*refSeries {
	by := map[int]*refSeries{}
	for _, set := range sets {
		for _, s := range set {
			r := by[s.L]
			if r == nil {
				r = &refSeries{L: s.L}
				by[s.L] = r
			}
			for _, c := range s.Chunks {
				for _, p := range c.S {
					r.add(c.K, p)
				}
			}
		}
	}
	var out []*refSeries
	for _, r := range by {
		sort.Slice(r.Ts, func(i, j int) bool { return r.Ts[i] < r.Ts[j] })
		out = append(out, r)
	}
	sort.Slice(out, func(i, j int) bool { return out[i].L < out[j].L })
	return out
}

// validInputs is the generator self-check: label pool strictly sorted, every set strictly
// label-sorted, every series strictly time-ordered with non-empty single-type chunks.
func validInputs(lbls []labels.Labels, sets [][]mSeries) bool {
	for i := 1; i < len(lbls); i++ {
		if labels.Compare(lbls[i-1], lbls[i]) >= 0 {
			return false
		}
	}
	for _, set := range sets {
		for i, s := range set {
			if s.L < 0 || s.L >= len(lbls) || (i > 0 && set[i-1].L >= s.L) {
				return false
			}
			first := true
			var last int64
			for _, c := range s.Chunks {
				if len(c.S) == 0 || c.K > 2 {
					return false
				}
				for j, p := range c.S {
					if !first && p.T <= last {
						return false
					}
					if j > 0 && c.K != 0 && !c.G && p.V < c.S[j-1].V {
						return false
					}
					first, last = false, p.T
				}
			}
		}
	}
	return true
}

// ---- the check ---------------------------------------------------------------------

func runC19(c c19Case, r *ev.Rec) error {
	lbls := make([]labels.Labels, len(c.Labels))
	for i, l := range c.Labels {
		lbls[i] = l.Labels()
	}
	if !validInputs(lbls, c.Sets) {
		r.Discard()
		return nil
	}
	want := refMerge(c.Sets)
	if c.Limit > 0 && len(want) > c.Limit {
		want = want[:c.Limit]
	}
	r.Class("mode:" + c.Mode)
	r.Class(fmt.Sprintf("sets:%d", len(c.Sets)))
	classifyC19(c, r)

	switch c.Mode {
	case "samples":
		return runC19Samples(c, lbls, want, r)
	default:
		return runC19Chunks(c, lbls, want, r)
	}
}

// classifyC19 records the input classes and the non-trivial rule: at least two inputs
// share a label set with overlapping time ranges.
func classifyC19(c c19Case, r *ev.Rec) {
	type span struct{ lo, hi int64 }
	type chk struct {
		set    int
		lo, hi int64
		key    string
	}
	spans := map[int][]span{}
	chs := map[int][]chk{}
	types := map[uint8]bool{}
	long := false
	for si, set := range c.Sets {
		for _, s := range set {
			var sp span
			n := 0
			for _, ch := range s.Chunks {
				types[ch.K] = true
				if len(ch.S) >= 100 {
					long = true
				}
				for _, p := range ch.S {
					if n == 0 {
						sp.lo = p.T
					}
					sp.hi = p.T
					n++
				}
				chs[s.L] = append(chs[s.L], chk{si, ch.S[0].T, ch.S[len(ch.S)-1].T, fmt.Sprint(ch)})
			}
			if n > 0 {
				spans[s.L] = append(spans[s.L], sp)
			}
		}
	}
	if len(types) > 1 {
		r.Class("mixed-types")
	}
	if long {
		r.Class("long-chunk")
	}
	overlap, shared := false, false
	for _, sp := range spans {
		if len(sp) > 1 {
			shared = true
		}
		for i := range sp {
			for j := i + 1; j < len(sp); j++ {
				if sp[i].lo <= sp[j].hi && sp[j].lo <= sp[i].hi {
					overlap = true
				}
			}
		}
	}
	if shared {
		r.Class("shared-labelset")
	}
	if overlap {
		r.Class("overlap")
		r.NonTrivial()
	}
	ident, sameRange, adjacent := false, false, false
	for _, l := range chs {
		for i := range l {
			for j := i + 1; j < len(l); j++ {
				if l[i].set == l[j].set {
					continue
				}
				switch {
				case l[i].key == l[j].key:
					ident = true
				case l[i].lo == l[j].lo && l[i].hi == l[j].hi:
					sameRange = true
				}
				if l[i].hi == l[j].lo || l[j].hi == l[i].lo || l[i].hi+1 == l[j].lo || l[j].hi+1 == l[i].lo {
					adjacent = true
				}
			}
		}
	}
	if ident {
		r.Class("identical-chunks")
	}
	if sameRange {
		r.Class("same-range-different-chunks")
	}
	if adjacent {
		r.Class("adjacent-chunks")
	}
	if c.Limit > 0 {
		r.Class("limit")
	}
}

func runC19Samples(c c19Case, lbls []labels.Labels, want []*refSeries, r *ev.Rec) error {
	sets := make([]storage.SeriesSet, 0, len(c.Sets))
	for _, set := range c.Sets {
		var ss []storage.Series
		for _, s := range set {
			ss = append(ss, storage.NewListSeries(lbls[s.L], seriesSamples(s)))
		}
		sets = append(sets, &listSeriesSet{s: ss, i: -1})
	}
	merged := storage.NewMergeSeriesSet(sets, c.Limit, storage.ChainedSeriesMerge)
	var it chunkenc.Iterator
	i := 0
	for merged.Next() {
		s := merged.At()
		if i >= len(want) {
			return ev.Failf("merged set yields more than the %d expected series: extra %v", len(want), s.Labels())
		}
		w := want[i]
		if !labels.Equal(s.Labels(), lbls[w.L]) {
			return ev.Failf("series %d: want labels %v, got %v", i, lbls[w.L], s.Labels())
		}
		if c.Reuse {
			it = s.Iterator(it)
		} else {
			it = s.Iterator(nil)
		}
		var prog []c19Op
		if len(c.Progs) > 0 {
			prog = c.Progs[i%len(c.Progs)]
		}
		if err := walkC19(it, w, prog, lbls[w.L], r); err != nil {
			return err
		}
		i++
	}
	if err := merged.Err(); err != nil {
		return ev.Failf("merged set Err()=%v", err)
	}
	if i != len(want) {
		return ev.Failf("merged set yielded %d series, want %d (limit %d); first missing %v", i, len(want), c.Limit, lbls[want[i].L])
	}
	if merged.Next() {
		return ev.Failf("Next() returned true after it had returned false")
	}
	return nil
}

// walkC19 runs a Next/Seek program against the iterator, mirrored by a cursor on the
// expected timestamp list, then drains the rest with Next.
func walkC19(it chunkenc.Iterator, w *refSeries, prog []c19Op, l labels.Labels, r *ev.Rec) error {
	pos, n := -1, len(w.Ts)
	hist := ""
	check := func(op string, vt chunkenc.ValueType) error {
		hist += " " + op
		if pos >= n {
			if vt != chunkenc.ValNone {
				t := it.AtT()
				return ev.Failf("series %v, ops%s: expected exhaustion (timestamps %v), got %v at t=%d", l, hist, w.Ts, vt, t)
			}
			return nil
		}
		if vt == chunkenc.ValNone {
			return ev.Failf("series %v, ops%s: iterator exhausted (Err=%v), expected sample at t=%d (timestamps %v)", l, hist, it.Err(), w.Ts[pos], w.Ts)
		}
		t, got, err := obsAt(it, vt)
		if err != nil {
			return ev.Failf("series %v, ops%s: %v", l, hist, err)
		}
		if t != w.Ts[pos] {
			return ev.Failf("series %v, ops%s: at t=%d, expected t=%d (timestamps %v)", l, hist, t, w.Ts[pos], w.Ts)
		}
		if !w.admits(t, got) {
			return ev.Failf("series %v, ops%s: t=%d value %+v is not one of the inputs' values %+v", l, hist, t, got, w.At[t])
		}
		return nil
	}
	for _, op := range prog {
		if !op.Seek {
			if pos < n {
				pos++
			}
			if err := check("Next", it.Next()); err != nil {
				return err
			}
			continue
		}
		r.Count("seek-ops", 1)
		if pos < n && !(pos >= 0 && w.Ts[pos] >= op.T) {
			if pos < 0 {
				pos = 0
			}
			for pos < n && w.Ts[pos] < op.T {
				pos++
			}
		} else if pos >= 0 && pos < n {
			r.Count("seek-noop", 1)
		}
		if err := check(fmt.Sprintf("Seek(%d)", op.T), it.Seek(op.T)); err != nil {
			return err
		}
	}
	for pos < n {
		pos++
		if err := check("Next", it.Next()); err != nil {
			return err
		}
	}
	if err := it.Err(); err != nil {
		return ev.Failf("series %v: iterator Err()=%v", l, err)
	}
	return nil
}

type chunkKey struct {
	lo, hi int64
	b      string
}

func runC19Chunks(c c19Case, lbls []labels.Labels, want []*refSeries, r *ev.Rec) error {
	sets := make([]storage.ChunkSeriesSet, 0, len(c.Sets))
	inChunks := map[int]map[chunkKey]int{} // label -> multiset of input chunks (concat oracle)
	for _, set := range c.Sets {
		var ss []storage.ChunkSeries
		for _, s := range set {
			var lists [][]chunks.Sample
			for _, ch := range s.Chunks {
				smp := chunkSamples(ch)
				m, err := chunks.ChunkFromSamples(smp)
				if err != nil {
					// generator self-check: the run could not be encoded as one chunk
					r.Discard()
					return nil
				}
				if inChunks[s.L] == nil {
					inChunks[s.L] = map[chunkKey]int{}
				}
				inChunks[s.L][chunkKey{m.MinTime, m.MaxTime, string(m.Chunk.Bytes())}]++
				lists = append(lists, smp)
			}
			ss = append(ss, storage.NewListChunkSeriesFromSamples(lbls[s.L], lists...))
		}
		sets = append(sets, &listChunkSeriesSet{s: ss, i: -1})
	}
	var merger storage.VerticalChunkSeriesMergeFunc
	if c.Mode == "compact" {
		merger = storage.NewCompactingChunkSeriesMerger(storage.ChainedSeriesMerge)
	} else {
		merger = storage.NewConcatenatingChunkSeriesMerger()
	}
	merged := storage.NewMergeChunkSeriesSet(sets, c.Limit, merger)
	i := 0
	for merged.Next() {
		s := merged.At()
		if i >= len(want) {
			return ev.Failf("merged chunk set yields more than the %d expected series: extra %v", len(want), s.Labels())
		}
		w := want[i]
		if !labels.Equal(s.Labels(), lbls[w.L]) {
			return ev.Failf("chunk series %d: want labels %v, got %v", i, lbls[w.L], s.Labels())
		}
		metas, err := storage.ExpandChunks(s.Iterator(nil))
		if err != nil {
			return ev.Failf("chunk series %v: chunk iterator error %v", lbls[w.L], err)
		}
		if c.Mode == "concat" {
			got := map[chunkKey]int{}
			for _, m := range metas {
				got[chunkKey{m.MinTime, m.MaxTime, string(m.Chunk.Bytes())}]++
			}
			in := inChunks[w.L]
			if len(got) != len(in) {
				return ev.Failf("concat %v: %d distinct chunks out, %d in", lbls[w.L], len(got), len(in))
			}
			for k, n := range in {
				if got[k] != n {
					return ev.Failf("concat %v: chunk [%d,%d] appears %d times in the inputs, %d times in the output", lbls[w.L], k.lo, k.hi, n, got[k])
				}
			}
			i++
			continue
		}
		// compacting merger: time-ordered, non-overlapping chunks; samples == sample-level merge
		pos := 0
		for ci, m := range metas {
			if m.Chunk == nil {
				return ev.Failf("compact %v: chunk %d has no data", lbls[w.L], ci)
			}
			if ci > 0 && m.MinTime <= metas[ci-1].MaxTime {
				return ev.Failf("compact %v: chunk %d [%d,%d] not after chunk %d [%d,%d]", lbls[w.L], ci, m.MinTime, m.MaxTime, ci-1, metas[ci-1].MinTime, metas[ci-1].MaxTime)
			}
			it := m.Chunk.Iterator(nil)
			k := 0
			var lastT int64
			for vt := it.Next(); vt != chunkenc.ValNone; vt = it.Next() {
				t, got, err := obsAt(it, vt)
				if err != nil {
					return ev.Failf("compact %v chunk %d: %v", lbls[w.L], ci, err)
				}
				if k == 0 && t != m.MinTime {
					return ev.Failf("compact %v: chunk %d meta MinTime=%d but first sample t=%d", lbls[w.L], ci, m.MinTime, t)
				}
				if pos >= len(w.Ts) {
					return ev.Failf("compact %v: extra sample t=%d after the expected timestamps %v", lbls[w.L], t, w.Ts)
				}
				if t != w.Ts[pos] {
					return ev.Failf("compact %v: chunk %d sample %d has t=%d, expected t=%d (expected timestamps %v)", lbls[w.L], ci, k, t, w.Ts[pos], w.Ts)
				}
				if !w.admits(t, got) {
					return ev.Failf("compact %v: t=%d value %+v is not one of the inputs' values %+v", lbls[w.L], t, got, w.At[t])
				}
				lastT = t
				pos++
				k++
			}
			if err := it.Err(); err != nil {
				return ev.Failf("compact %v: chunk %d decode error %v", lbls[w.L], ci, err)
			}
			if k == 0 {
				return ev.Failf("compact %v: chunk %d [%d,%d] is empty", lbls[w.L], ci, m.MinTime, m.MaxTime)
			}
			if lastT != m.MaxTime {
				return ev.Failf("compact %v: chunk %d meta MaxTime=%d but last sample t=%d", lbls[w.L], ci, m.MaxTime, lastT)
			}
			if k != m.Chunk.NumSamples() {
				return ev.Failf("compact %v: chunk %d NumSamples=%d but %d decoded", lbls[w.L], ci, m.Chunk.NumSamples(), k)
			}
		}
		if pos != len(w.Ts) {
			return ev.Failf("compact %v: %d samples out, expected %d: missing from t=%d (expected timestamps %v)", lbls[w.L], pos, len(w.Ts), w.Ts[pos], w.Ts)
		}
		i++
	}
	if err := merged.Err(); err != nil {
		return ev.Failf("merged chunk set Err()=%v", err)
	}
	if i != len(want) {
		return ev.Failf("merged chunk set yielded %d series, want %d (limit %d); first missing %v", i, len(want), c.Limit, lbls[want[i].L])
	}
	return nil
}

// ---- generator ---------------------------------------------------------------------

func cloneChunks(in []mChunk) []mChunk {
	out := make([]mChunk, len(in))
	for i, c := range in {
		out[i] = mChunk{K: c.K, G: c.G, S: append([]mPt(nil), c.S...)}
	}
	return out
}

func genValue(t *rapid.T, k uint8) uint64 {
	if k == 0 {
		if rapid.IntRange(0, 3).Draw(t, "fsmall") > 0 {
			return gen.B(float64(rapid.IntRange(0, 5).Draw(t, "fv")))
		}
		return gen.FloatBits().Draw(t, "fbits")
	}
	return uint64(rapid.IntRange(0, 6).Draw(t, "hid"))
}

var c19Steps = []int64{1, 1, 1, 2, 2, 3, 5}

// genFreshChunks draws time-ordered chunks starting at or after start.
func genFreshChunks(t *rapid.T, start int64, maxChunks int) []mChunk {
	n := rapid.IntRange(0, maxChunks).Draw(t, "nchunks")
	if n == 0 && rapid.IntRange(0, 3).Draw(t, "allowempty") > 0 {
		n = 1
	}
	ts := start
	var out []mChunk
	for i := 0; i < n; i++ {
		c := mChunk{}
		switch rapid.IntRange(0, 9).Draw(t, "ktype") {
		case 0, 1:
			c.K = 1
		case 2, 3:
			c.K = 2
		}
		if c.K != 0 {
			c.G = rapid.Bool().Draw(t, "gauge")
		}
		m := rapid.IntRange(1, 5).Draw(t, "clen")
		if rapid.IntRange(0, 59).Draw(t, "long") == 30 {
			// longer than the 120-sample split of the re-encoder used by the compacting merger
			m = rapid.IntRange(100, 130).Draw(t, "longlen")
		}
		var prev uint64
		for j := 0; j < m; j++ {
			v := genValue(t, c.K)
			if c.K != 0 && !c.G && j > 0 {
				// counter histograms: non-decreasing ids inside a chunk
				v = prev + uint64(rapid.IntRange(0, 2).Draw(t, "hinc"))
			}
			prev = v
			c.S = append(c.S, mPt{T: ts, V: v})
			ts += rapid.SampledFrom(c19Steps).Draw(t, "step")
		}
		out = append(out, c)
	}
	return out
}

func lastT(cs []mChunk) (int64, bool) {
	if len(cs) == 0 {
		return 0, false
	}
	s := cs[len(cs)-1].S
	return s[len(s)-1].T, true
}

// genVariant derives chunks from those of another input with the same label set: keep,
// drop an interior or edge sample, change a value, shift in time, append a chunk.
func genVariant(t *rapid.T, prev []mChunk) []mChunk {
	out := cloneChunks(prev)
	nops := rapid.IntRange(1, 2).Draw(t, "nvar")
	for o := 0; o < nops && len(out) > 0; o++ {
		ci := rapid.IntRange(0, len(out)-1).Draw(t, "vchunk")
		c := &out[ci]
		switch rapid.IntRange(0, 4).Draw(t, "vop") {
		case 0, 1: // drop a sample (interior ones keep min/max time equal)
			if len(c.S) >= 2 {
				var di int
				if len(c.S) >= 3 && rapid.IntRange(0, 2).Draw(t, "interior") > 0 {
					di = rapid.IntRange(1, len(c.S)-2).Draw(t, "dropi")
				} else {
					di = rapid.IntRange(0, len(c.S)-1).Draw(t, "drop")
				}
				c.S = append(c.S[:di:di], c.S[di+1:]...)
			}
		case 2: // change a value
			if c.K == 0 || c.G {
				vi := rapid.IntRange(0, len(c.S)-1).Draw(t, "vi")
				c.S[vi].V = genValue(t, c.K)
			}
		case 3: // shift everything
			d := int64(rapid.IntRange(1, 3).Draw(t, "shift"))
			for i := range out {
				for j := range out[i].S {
					out[i].S[j].T += d
				}
			}
		case 4: // append
			if lt, ok := lastT(out); ok {
				out = append(out, genFreshChunks(t, lt+int64(rapid.IntRange(1, 3).Draw(t, "gap")), 1)...)
			}
		}
	}
	return out
}

func genC19Inputs(t *rapid.T, maxSets int) ([]gen.Lset, [][]mSeries) {
	// label pool: 1-5 distinct label sets, sorted by labels.Compare
	nl := rapid.IntRange(1, 5).Draw(t, "nlabels")
	seen := map[string]bool{}
	var pool []gen.Lset
	for i := 0; i < nl*3 && len(pool) < nl; i++ {
		l := gen.SmallLset(true, 2).Draw(t, "lset")
		if seen[l.Key()] {
			continue
		}
		seen[l.Key()] = true
		pool = append(pool, l)
	}
	sort.Slice(pool, func(i, j int) bool { return labels.Compare(pool[i].Labels(), pool[j].Labels()) < 0 })

	base := rapid.SampledFrom([]int64{0, 0, -15, 1000, 1_700_000_000_000}).Draw(t, "base")
	nsets := rapid.IntRange(0, maxSets).Draw(t, "nsets")
	if nsets <= 1 && maxSets >= 2 && rapid.IntRange(0, 3).Draw(t, "moresets") > 0 {
		nsets = rapid.IntRange(2, maxSets).Draw(t, "nsets2")
	}
	lastSeen := map[int][]mChunk{} // most recent chunks generated for a label
	sets := make([][]mSeries, 0, nsets)
	for si := 0; si < nsets; si++ {
		set := []mSeries{}
		for li := range pool {
			if rapid.IntRange(0, 9).Draw(t, "member") >= 6 {
				continue
			}
			var cs []mChunk
			prev, has := lastSeen[li]
			style := rapid.IntRange(0, 9).Draw(t, "style")
			switch {
			case has && style <= 1:
				cs = cloneChunks(prev)
			case has && style <= 4:
				cs = genVariant(t, prev)
			case has && style == 5:
				// adjacent: begin at the last timestamp of the other input or right after it
				lt, ok := lastT(prev)
				if !ok {
					lt = base
				}
				cs = genFreshChunks(t, lt+int64(rapid.IntRange(0, 1).Draw(t, "adj")), 2)
			default:
				cs = genFreshChunks(t, base+int64(rapid.IntRange(0, 12).Draw(t, "start")), 3)
			}
			lastSeen[li] = cs
			set = append(set, mSeries{L: li, Chunks: cs})
		}
		sets = append(sets, set)
	}
	return pool, sets
}

func genC19(t *rapid.T) c19Case {
	c := c19Case{Mode: rapid.SampledFrom([]string{"samples", "samples", "samples", "compact", "compact", "concat"}).Draw(t, "mode")}
	c.Labels, c.Sets = genC19Inputs(t, 6)
	// With exactly one input the merge constructor hands the input back unchanged and a
	// series limit is then the input's own business; only draw a limit otherwise.
	if len(c.Sets) != 1 && rapid.IntRange(0, 5).Draw(t, "haslimit") == 0 {
		c.Limit = rapid.IntRange(1, 4).Draw(t, "limit")
	}
	if c.Mode == "samples" {
		c.Reuse = rapid.Bool().Draw(t, "reuse")
		var lo, hi int64
		first := true
		for _, set := range c.Sets {
			for _, s := range set {
				for _, ch := range s.Chunks {
					for _, p := range ch.S {
						if first || p.T < lo {
							lo = p.T
						}
						if first || p.T > hi {
							hi = p.T
						}
						first = false
					}
				}
			}
		}
		np := rapid.IntRange(0, 3).Draw(t, "nprogs")
		for i := 0; i < np; i++ {
			n := rapid.IntRange(0, 12).Draw(t, "nops")
			var prog []c19Op
			cur := lo - 2
			for j := 0; j < n; j++ {
				if rapid.IntRange(0, 2).Draw(t, "isnext") == 0 {
					prog = append(prog, c19Op{})
					continue
				}
				var target int64
				switch rapid.IntRange(0, 5).Draw(t, "seekclass") {
				case 0:
					target = rapid.Int64Range(lo-2, hi+3).Draw(t, "seekany")
				case 1:
					target = cur // re-seek to an earlier target (no-op)
				case 2:
					target = cur - int64(rapid.IntRange(1, 5).Draw(t, "seekback"))
				case 3:
					target = hi + int64(rapid.IntRange(0, 2).Draw(t, "seekend"))
				default:
					target = cur + int64(rapid.IntRange(0, 6).Draw(t, "seekfwd"))
				}
				if target > cur {
					cur = target
				}
				prog = append(prog, c19Op{Seek: true, T: target})
			}
			c.Progs = append(c.Progs, prog)
		}
	}
	return c
}

func TestC19(t *testing.T) {
	ev.Check(t, "C19",
		"0-6 label-sorted series sets over a pool of 1-5 label sets and a small time universe; series of later inputs are fresh, identical copies, variants (sample dropped / value changed / shifted / chunk appended) or adjacent continuations of an earlier input's series; chunks are float, integer-histogram or float-histogram runs. Modes: sample level (NewMergeSeriesSet+ChainedSeriesMerge, iterated with drawn Next/Seek programs incl. backwards and past-the-end seeks and iterator reuse), chunk level with the compacting merger (decoded chunks must be time-ordered, non-overlapping, metas exact, samples equal to the sample-level reference) and with the concatenating merger (output chunk multiset = input chunk multiset); optional series limit. Reference = map label set -> timestamp -> set of input values. Non-trivial: at least two inputs share a label set with overlapping time ranges; distinct by hash of the case.",
		genC19, runC19)
}
