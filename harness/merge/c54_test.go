package merge

import (
	"context"
	"fmt"
	"io"
	"log/slog"
	"sort"
	"sync"
	"testing"

	"github.com/prometheus/prometheus/model/histogram"
	"github.com/prometheus/prometheus/model/labels"
	"github.com/prometheus/prometheus/storage"
	"github.com/prometheus/prometheus/tsdb/chunkenc"
	"github.com/prometheus/prometheus/tsdb/chunks"
	"github.com/prometheus/prometheus/util/annotations"
	"github.com/prometheus/prometheus/util/teststorage"
	"pgregory.net/rapid"

	"verifharness/internal/ev"
	"verifharness/internal/gen"
)

// C54 — Fanout storage merges primary and secondary data with best-effort secondaries.
//
// storage.NewFanout(primary, sec1..sec3) over harness storages. Every storage serves
// generated contents (in-memory list series, or a real TSDB opened in a temp dir) through
// a wrapper that follows a failure script: fail at Querier()/ChunkQuerier(), at Select,
// at the k-th Next of a returned set, in LabelNames/LabelValues, at the i-th Append, at
// Commit. The oracle is the C19 reference merge over the primary and the secondaries that
// did not fail, plus the documented error/warning rules of NewFanout.

const (
	// Root causes observed on the unchanged tree (see sensitivity/C54.md); cases are tagged
	// with these only when the scripted failure of exactly that kind was reached.
	c54SigLateSecondary = "fanout-secondary-error-after-first-series-fails-query"
	c54SigOpenSecondary = "fanout-secondary-querier-open-error-fails-query"
)

type c54Matcher struct {
	Type  int
	Name  string
	Value string
}

type c54Store struct {
	Series []mSeries // label-index sorted
	// read path script
	FailOpen   bool  // Querier()/ChunkQuerier() returns an error
	FailAt     []int // per Select call: -1 never, 0 Select returns an error set, k>=1 the k-th Next fails
	Warn       bool  // returned sets carry a warning annotation
	FailLabels bool  // LabelNames/LabelValues return an error
	// write path script
	FailAppend   int // index of the Append call that fails, -1 never
	FailCommit   bool
	FailRollback bool
}

type c54Append struct {
	L int
	K uint8
	T int64
	V uint64
}

type c54Case struct {
	Mode    string // query | chunks | labels | append
	Real    bool   // contents served by a real TSDB instead of list series
	Labels  []gen.Lset
	Stores  []c54Store // [0] primary, rest secondaries
	Selects [][]c54Matcher
	Order   []int // interleaving of Next calls over the result sets, then everything is drained
	LName   string
	Batch   []c54Append
	V2      bool
}

// ---- harness storages --------------------------------------------------------------

type innerStore interface {
	Querier(mint, maxt int64) (storage.Querier, error)
	ChunkQuerier(mint, maxt int64) (storage.ChunkQuerier, error)
}

// memStore serves list series.
type memStore struct {
	lbls   []labels.Labels
	series []mSeries
}

func (m *memStore) match(ms []*labels.Matcher) []mSeries {
	var out []mSeries
	for _, s := range m.series {
		ok := true
		for _, mm := range ms {
			if !mm.Matches(m.lbls[s.L].Get(mm.Name)) {
				ok = false
				break
			}
		}
		if ok {
			out = append(out, s)
		}
	}
	return out
}

func (m *memStore) Querier(_, _ int64) (storage.Querier, error) { return &memQuerier{m}, nil }
func (m *memStore) ChunkQuerier(_, _ int64) (storage.ChunkQuerier, error) {
	return &memChunkQuerier{memQuerier{m}}, nil
}

type memQuerier struct{ m *memStore }

func (q *memQuerier) Select(_ context.Context, _ bool, _ *storage.SelectHints, ms ...*labels.Matcher) storage.SeriesSet {
	var ss []storage.Series
	for _, s := range q.m.match(ms) {
		ss = append(ss, storage.NewListSeries(q.m.lbls[s.L], seriesSamples(s)))
	}
	return &listSeriesSet{s: ss, i: -1}
}

func (q *memQuerier) LabelValues(_ context.Context, name string, _ *storage.LabelHints, ms ...*labels.Matcher) ([]string, annotations.Annotations, error) {
	set := map[string]bool{}
	for _, s := range q.m.match(ms) {
		if v := q.m.lbls[s.L].Get(name); v != "" {
			set[v] = true
		}
	}
	return sortedKeys(set), nil, nil
}

func (q *memQuerier) LabelNames(_ context.Context, _ *storage.LabelHints, ms ...*labels.Matcher) ([]string, annotations.Annotations, error) {
	set := map[string]bool{}
	for _, s := range q.m.match(ms) {
		q.m.lbls[s.L].Range(func(l labels.Label) { set[l.Name] = true })
	}
	return sortedKeys(set), nil, nil
}

func (*memQuerier) Close() error { return nil }

type memChunkQuerier struct{ memQuerier }

func (q *memChunkQuerier) Select(_ context.Context, _ bool, _ *storage.SelectHints, ms ...*labels.Matcher) storage.ChunkSeriesSet {
	var ss []storage.ChunkSeries
	for _, s := range q.m.match(ms) {
		var lists [][]chunks.Sample
		for _, ch := range s.Chunks {
			lists = append(lists, chunkSamples(ch))
		}
		ss = append(ss, storage.NewListChunkSeriesFromSamples(q.m.lbls[s.L], lists...))
	}
	return &listChunkSeriesSet{s: ss, i: -1}
}

func sortedKeys(m map[string]bool) []string {
	out := make([]string, 0, len(m))
	for k := range m {
		out = append(out, k)
	}
	sort.Strings(out)
	return out
}

// fakeStorage wraps an innerStore with the failure script and records the write path.
type fakeStorage struct {
	idx    int
	script c54Store
	inner  innerStore

	mu        sync.Mutex
	selects   int
	yielded   []int  // per Select call: series handed out
	failedAt  []bool // per Select call: scripted failure was reached
	appenders []*fakeAppender
}

func (f *fakeStorage) errFor(what string) error {
	return fmt.Errorf("store %d scripted %s failure", f.idx, what)
}

func (f *fakeStorage) warning() error { return fmt.Errorf("store %d scripted warning", f.idx) }

func (f *fakeStorage) nextSelect() (int, int) {
	f.mu.Lock()
	defer f.mu.Unlock()
	i := f.selects
	f.selects++
	f.yielded = append(f.yielded, 0)
	f.failedAt = append(f.failedAt, false)
	at := -1
	if i < len(f.script.FailAt) {
		at = f.script.FailAt[i]
	}
	return i, at
}

func (f *fakeStorage) Querier(mint, maxt int64) (storage.Querier, error) {
	if f.script.FailOpen {
		return nil, f.errFor("open")
	}
	q, err := f.inner.Querier(mint, maxt)
	if err != nil {
		return nil, err
	}
	return &fakeQuerier{f: f, q: q}, nil
}

func (f *fakeStorage) ChunkQuerier(mint, maxt int64) (storage.ChunkQuerier, error) {
	if f.script.FailOpen {
		return nil, f.errFor("open")
	}
	q, err := f.inner.ChunkQuerier(mint, maxt)
	if err != nil {
		return nil, err
	}
	return &fakeChunkQuerier{f: f, q: q}, nil
}

func (*fakeStorage) StartTime() (int64, error) { return 0, nil }
func (*fakeStorage) Close() error              { return nil }

type scriptCore struct {
	f      *fakeStorage
	sel    int
	failAt int
	calls  int
	failed bool
}

// step returns (proceed, result) for one Next call.
func (s *scriptCore) step() bool {
	s.calls++
	if s.failed {
		return false
	}
	if s.failAt >= 1 && s.calls == s.failAt {
		s.failed = true
		s.f.mu.Lock()
		s.f.failedAt[s.sel] = true
		s.f.mu.Unlock()
		return false
	}
	return true
}

func (s *scriptCore) yield() {
	s.f.mu.Lock()
	s.f.yielded[s.sel]++
	s.f.mu.Unlock()
}

func (s *scriptCore) warnings(in annotations.Annotations) annotations.Annotations {
	if !s.f.script.Warn {
		return in
	}
	var ws annotations.Annotations
	ws.Merge(in)
	ws.Add(s.f.warning())
	return ws
}

type scriptedSet struct {
	scriptCore
	in storage.SeriesSet
}

func (s *scriptedSet) Next() bool {
	if !s.step() || !s.in.Next() {
		return false
	}
	s.yield()
	return true
}
func (s *scriptedSet) At() storage.Series { return s.in.At() }
func (s *scriptedSet) Err() error {
	if s.failed {
		return s.f.errFor("next")
	}
	return s.in.Err()
}
func (s *scriptedSet) Warnings() annotations.Annotations { return s.warnings(s.in.Warnings()) }

type scriptedChunkSet struct {
	scriptCore
	in storage.ChunkSeriesSet
}

func (s *scriptedChunkSet) Next() bool {
	if !s.step() || !s.in.Next() {
		return false
	}
	s.yield()
	return true
}
func (s *scriptedChunkSet) At() storage.ChunkSeries { return s.in.At() }
func (s *scriptedChunkSet) Err() error {
	if s.failed {
		return s.f.errFor("next")
	}
	return s.in.Err()
}
func (s *scriptedChunkSet) Warnings() annotations.Annotations { return s.warnings(s.in.Warnings()) }

type fakeQuerier struct {
	f *fakeStorage
	q storage.Querier
}

func (q *fakeQuerier) Select(ctx context.Context, _ bool, hints *storage.SelectHints, ms ...*labels.Matcher) storage.SeriesSet {
	sel, at := q.f.nextSelect()
	if at == 0 {
		q.f.mu.Lock()
		q.f.failedAt[sel] = true
		q.f.mu.Unlock()
		return storage.ErrSeriesSet(q.f.errFor("select"))
	}
	return &scriptedSet{scriptCore{f: q.f, sel: sel, failAt: at}, q.q.Select(ctx, true, hints, ms...)}
}

func (q *fakeQuerier) LabelValues(ctx context.Context, name string, h *storage.LabelHints, ms ...*labels.Matcher) ([]string, annotations.Annotations, error) {
	if q.f.script.FailLabels {
		return nil, nil, q.f.errFor("labelvalues")
	}
	return q.q.LabelValues(ctx, name, h, ms...)
}

func (q *fakeQuerier) LabelNames(ctx context.Context, h *storage.LabelHints, ms ...*labels.Matcher) ([]string, annotations.Annotations, error) {
	if q.f.script.FailLabels {
		return nil, nil, q.f.errFor("labelnames")
	}
	return q.q.LabelNames(ctx, h, ms...)
}

func (q *fakeQuerier) Close() error { return q.q.Close() }

type fakeChunkQuerier struct {
	f *fakeStorage
	q storage.ChunkQuerier
}

func (q *fakeChunkQuerier) Select(ctx context.Context, _ bool, hints *storage.SelectHints, ms ...*labels.Matcher) storage.ChunkSeriesSet {
	sel, at := q.f.nextSelect()
	if at == 0 {
		q.f.mu.Lock()
		q.f.failedAt[sel] = true
		q.f.mu.Unlock()
		return storage.ErrChunkSeriesSet(q.f.errFor("select"))
	}
	return &scriptedChunkSet{scriptCore{f: q.f, sel: sel, failAt: at}, q.q.Select(ctx, true, hints, ms...)}
}

func (q *fakeChunkQuerier) LabelValues(ctx context.Context, name string, h *storage.LabelHints, ms ...*labels.Matcher) ([]string, annotations.Annotations, error) {
	if q.f.script.FailLabels {
		return nil, nil, q.f.errFor("labelvalues")
	}
	return q.q.LabelValues(ctx, name, h, ms...)
}

func (q *fakeChunkQuerier) LabelNames(ctx context.Context, h *storage.LabelHints, ms ...*labels.Matcher) ([]string, annotations.Annotations, error) {
	if q.f.script.FailLabels {
		return nil, nil, q.f.errFor("labelnames")
	}
	return q.q.LabelNames(ctx, h, ms...)
}

func (q *fakeChunkQuerier) Close() error { return q.q.Close() }

// write path

type appended struct {
	l  string
	t  int64
	k  uint8
	v  uint64
	id uint64
}

type fakeAppender struct {
	storage.Appender // unimplemented methods panic
	f                *fakeStorage
	calls            int
	pending          []appended
	committed        bool
	commits, rolls   int
	order            *[]string
}

func (a *fakeAppender) record(l labels.Labels, t int64, v float64, h *histogram.Histogram, fh *histogram.FloatHistogram) (storage.SeriesRef, error) {
	i := a.calls
	a.calls++
	if a.f.script.FailAppend == i {
		return 0, a.f.errFor("append")
	}
	rec := appended{l: l.String(), t: t}
	switch {
	case fh != nil:
		rec.k, rec.id = 2, uint64(fh.ZeroCount)
	case h != nil:
		rec.k, rec.id = 1, h.ZeroCount
	default:
		rec.v = gen.B(v)
	}
	a.pending = append(a.pending, rec)
	return storage.SeriesRef(1000*(a.f.idx+1) + len(a.pending)), nil
}

func (a *fakeAppender) Append(_ storage.SeriesRef, l labels.Labels, t int64, v float64) (storage.SeriesRef, error) {
	return a.record(l, t, v, nil, nil)
}

func (a *fakeAppender) AppendHistogram(_ storage.SeriesRef, l labels.Labels, t int64, h *histogram.Histogram, fh *histogram.FloatHistogram) (storage.SeriesRef, error) {
	return a.record(l, t, 0, h, fh)
}

func (a *fakeAppender) Commit() error {
	a.commits++
	*a.order = append(*a.order, fmt.Sprintf("commit:%d", a.f.idx))
	if a.f.script.FailCommit {
		return a.f.errFor("commit")
	}
	a.committed = true
	return nil
}

func (a *fakeAppender) Rollback() error {
	a.rolls++
	*a.order = append(*a.order, fmt.Sprintf("rollback:%d", a.f.idx))
	if a.f.script.FailRollback {
		return a.f.errFor("rollback")
	}
	return nil
}

type fakeAppenderV2 struct{ a *fakeAppender }

func (a fakeAppenderV2) Append(_ storage.SeriesRef, l labels.Labels, _, t int64, v float64, h *histogram.Histogram, fh *histogram.FloatHistogram, _ storage.AppendV2Options) (storage.SeriesRef, error) {
	return a.a.record(l, t, v, h, fh)
}
func (a fakeAppenderV2) Commit() error   { return a.a.Commit() }
func (a fakeAppenderV2) Rollback() error { return a.a.Rollback() }

type fakeWriteStorage struct {
	*fakeStorage
	order *[]string
}

func (f fakeWriteStorage) newAppender() *fakeAppender {
	a := &fakeAppender{f: f.fakeStorage, order: f.order}
	f.mu.Lock()
	f.appenders = append(f.appenders, a)
	f.mu.Unlock()
	return a
}
func (f fakeWriteStorage) Appender(context.Context) storage.Appender { return f.newAppender() }
func (f fakeWriteStorage) AppenderV2(context.Context) storage.AppenderV2 {
	return fakeAppenderV2{f.newAppender()}
}

// ---- the check ---------------------------------------------------------------------

func c54Matchers(ms []c54Matcher) ([]*labels.Matcher, error) {
	out := []*labels.Matcher{}
	for _, m := range ms {
		mm, err := labels.NewMatcher(labels.MatchType(m.Type), m.Name, m.Value)
		if err != nil {
			return nil, err
		}
		out = append(out, mm)
	}
	return out, nil
}

func loadReal(lbls []labels.Labels, series []mSeries) (*teststorage.TestStorage, error) {
	db, err := teststorage.NewWithError()
	if err != nil {
		return nil, err
	}
	app := db.Appender(context.Background())
	for _, s := range series {
		for _, smp := range seriesSamples(s) {
			var err error
			switch smp.Type() {
			case chunkenc.ValFloat:
				_, err = app.Append(0, lbls[s.L], smp.T(), smp.F())
			case chunkenc.ValHistogram:
				_, err = app.AppendHistogram(0, lbls[s.L], smp.T(), smp.H(), nil)
			default:
				_, err = app.AppendHistogram(0, lbls[s.L], smp.T(), nil, smp.FH())
			}
			if err != nil {
				_ = app.Rollback()
				_ = db.Close()
				return nil, err
			}
		}
	}
	if err := app.Commit(); err != nil {
		_ = db.Close()
		return nil, err
	}
	return db, nil
}

func runC54(c c54Case, r *ev.Rec) error {
	if len(c.Stores) == 0 {
		r.Discard()
		return nil
	}
	lbls := make([]labels.Labels, len(c.Labels))
	for i, l := range c.Labels {
		lbls[i] = l.Labels()
	}
	all := make([][]mSeries, len(c.Stores))
	for i, s := range c.Stores {
		if c.Real {
			// a TSDB has no series without samples
			var keep []mSeries
			for _, x := range s.Series {
				if len(x.Chunks) > 0 {
					keep = append(keep, x)
				}
				for _, ch := range x.Chunks {
					for _, p := range ch.S {
						if ch.K == 0 && p.V == gen.StaleNaNBits {
							// generator self-check, see genC54
							r.Discard()
							return nil
						}
					}
				}
			}
			c.Stores[i].Series = keep
		}
		all[i] = c.Stores[i].Series
	}
	if !validInputs(lbls, all) {
		r.Discard()
		return nil
	}
	r.Class("mode:" + c.Mode)
	r.Class(fmt.Sprintf("secondaries:%d", len(c.Stores)-1))
	if c.Mode == "append" {
		return runC54Append(c, lbls, r)
	}

	stores := make([]*fakeStorage, len(c.Stores))
	sts := make([]storage.Storage, len(c.Stores))
	for i, s := range c.Stores {
		f := &fakeStorage{idx: i, script: s}
		if c.Real {
			db, err := loadReal(lbls, s.Series)
			if err != nil {
				// generator self-check: the TSDB refused the generated contents
				r.Discard()
				return nil
			}
			defer db.Close()
			f.inner = db
		} else {
			f.inner = &memStore{lbls: lbls, series: s.Series}
		}
		stores[i] = f
		order := []string{}
		sts[i] = fakeWriteStorage{f, &order}
	}
	if c.Real {
		r.Class("backing:tsdb")
	}
	fan := storage.NewFanout(slog.New(slog.NewTextHandler(io.Discard, nil)), sts[0], sts[1:]...)
	const mint, maxt = int64(-1) << 40, int64(1) << 60

	var (
		q   storage.LabelQuerier
		sq  storage.Querier
		cq  storage.ChunkQuerier
		err error
	)
	if c.Mode == "chunks" {
		cq, err = fan.ChunkQuerier(mint, maxt)
		q = cq
	} else {
		sq, err = fan.Querier(mint, maxt)
		q = sq
	}
	secOpenFail := false
	for i, s := range c.Stores {
		if i > 0 && s.FailOpen {
			secOpenFail = true
		}
	}
	switch {
	case c.Stores[0].FailOpen:
		r.Class("fail:primary-open")
		if err == nil {
			return ev.Failf("primary failed to open a querier but the fanout returned no error")
		}
		return nil
	case err != nil && secOpenFail:
		r.Class("fail:secondary-open")
		r.NonTrivial()
		return ev.FailSig(c54SigOpenSecondary, "a secondary failed at Querier()/ChunkQuerier() and the whole fanout querier failed instead of continuing without it: %v", err)
	case err != nil:
		return ev.Failf("fanout querier could not be opened although no storage failed: %v", err)
	}
	defer q.Close()
	if secOpenFail {
		r.Class("fail:secondary-open")
	}

	if c.Mode == "labels" {
		return runC54Labels(c, lbls, q, r)
	}

	// ---- Select: all Selects first, then iteration in the drawn interleaving
	nsel := len(c.Selects)
	type result struct {
		series []c54Got
		err    error
		warns  annotations.Annotations
		done   bool
	}
	res := make([]*result, nsel)
	var sets []storage.SeriesSet
	var csets []storage.ChunkSeriesSet
	var matchers [][]*labels.Matcher
	for i, raw := range c.Selects {
		ms, merr := c54Matchers(raw)
		if merr != nil {
			r.Discard()
			return nil
		}
		matchers = append(matchers, ms)
		res[i] = &result{}
		if c.Mode == "chunks" {
			csets = append(csets, cq.Select(context.Background(), true, nil, ms...))
		} else {
			sets = append(sets, sq.Select(context.Background(), true, nil, ms...))
		}
	}
	advance := func(i int) error {
		rs := res[i]
		if rs.done {
			return nil
		}
		if c.Mode == "chunks" {
			if !csets[i].Next() {
				rs.done, rs.err, rs.warns = true, csets[i].Err(), csets[i].Warnings()
				return nil
			}
			s := csets[i].At()
			metas, err := storage.ExpandChunks(s.Iterator(nil))
			if err != nil {
				return ev.Failf("select %d: chunk iterator of %v failed: %v", i, s.Labels(), err)
			}
			rs.series = append(rs.series, c54Got{l: s.Labels(), metas: metas})
			return nil
		}
		if !sets[i].Next() {
			rs.done, rs.err, rs.warns = true, sets[i].Err(), sets[i].Warnings()
			return nil
		}
		s := sets[i].At()
		g := c54Got{l: s.Labels()}
		it := s.Iterator(nil)
		for vt := it.Next(); vt != chunkenc.ValNone; vt = it.Next() {
			t, o, err := obsAt(it, vt)
			if err != nil {
				return ev.Failf("select %d series %v: %v", i, s.Labels(), err)
			}
			g.ts = append(g.ts, t)
			g.obs = append(g.obs, o)
		}
		if err := it.Err(); err != nil {
			return ev.Failf("select %d series %v: iterator error %v", i, s.Labels(), err)
		}
		rs.series = append(rs.series, g)
		return nil
	}
	for _, i := range c.Order {
		if i >= 0 && i < nsel {
			if err := advance(i); err != nil {
				return err
			}
		}
	}
	for i := 0; i < nsel; i++ {
		for !res[i].done {
			if err := advance(i); err != nil {
				return err
			}
		}
	}

	// ---- what the scripts did
	// A secondary counts as failed for the whole querier when one of its sets failed
	// before yielding anything (Select error or first Next): all-or-nothing per secondary.
	failedSec := map[int]bool{}
	for si := 1; si < len(c.Stores); si++ {
		if c.Stores[si].FailOpen {
			failedSec[si] = true
			continue
		}
		for sel := 0; sel < nsel && sel < len(c.Stores[si].FailAt); sel++ {
			if at := c.Stores[si].FailAt[sel]; at == 0 || at == 1 {
				failedSec[si] = true
			}
		}
	}
	var allWarn annotations.Annotations
	for _, rs := range res {
		allWarn.Merge(rs.warns)
	}
	hasWarn := func(e error) bool {
		for _, w := range allWarn.AsErrors() {
			if w.Error() == e.Error() {
				return true
			}
		}
		return false
	}
	anySecFailure := false
	okSelects := 0 // selects whose primary did not fail: only those must report on secondaries
	// When the primary fails at the first Next of some select, the merge constructor
	// returns an error-only set and drops the sets it had already advanced; if the failed
	// secondary's (single) warning carrier is among them the warning is gone. The query
	// fails anyway in that session, and which set is advanced first depends on goroutine
	// scheduling, so no warning is demanded in such sessions.
	primaryEarlyFail := false
	for sel := 0; sel < nsel; sel++ {
		rs := res[sel]
		// primary
		pAt := -1
		if sel < len(c.Stores[0].FailAt) {
			pAt = c.Stores[0].FailAt[sel]
		}
		primaryFailed := stores[0].selects > sel && stores[0].failedAt[sel]
		if pAt >= 0 && !primaryFailed && pAt <= 1 {
			return ev.Failf("harness: primary failure script of select %d not reached", sel)
		}
		if primaryFailed {
			if pAt <= 1 {
				primaryEarlyFail = true
			}
			r.Class("fail:primary-select")
			if rs.err == nil {
				return ev.Failf("select %d: the primary failed (script %d) but the merged set reports Err()==nil", sel, pAt)
			}
			continue
		}
		// secondaries failing late (after having yielded at least one series) in this select
		late := []int{}
		for si := 1; si < len(c.Stores); si++ {
			if failedSec[si] || stores[si].selects <= sel {
				continue
			}
			if stores[si].failedAt[sel] {
				late = append(late, si)
			}
		}
		if len(late) > 0 {
			anySecFailure = true
			r.Class("fail:secondary-late")
			r.NonTrivial()
			if rs.err != nil {
				return ev.FailSig(c54SigLateSecondary, "select %d: secondary %v failed at its Next #%d after having yielded %d series; the merged set then reports Err()=%v instead of succeeding with a warning and without that secondary's data", sel, late, c.Stores[late[0]].FailAt[sel], stores[late[0]].yielded[sel], rs.err)
			}
			for _, si := range late {
				failedSec[si] = true // a compliant implementation: nothing of it may be visible
			}
		}
		okSelects++
		if rs.err != nil {
			return ev.Failf("select %d: merged set Err()=%v although the primary did not fail (failed secondaries: %v)", sel, rs.err, failedSec)
		}
		// expected contents
		var inputs [][]mSeries
		for si := range c.Stores {
			if si > 0 && failedSec[si] {
				continue
			}
			ms := &memStore{lbls: lbls, series: c.Stores[si].Series}
			inputs = append(inputs, ms.match(matchers[sel]))
		}
		want := refMerge(inputs)
		if err := c54Compare(sel, c.Mode, lbls, want, rs.series, failedSec); err != nil {
			return err
		}
		// warnings of the stores that took part
		for si := range c.Stores {
			if c.Stores[si].Warn && !(si > 0 && failedSec[si]) && stores[si].selects > sel {
				if !hasWarn(stores[si].warning()) {
					return ev.Failf("select %d: warning of store %d lost; warnings: %v", sel, si, allWarn.AsErrors())
				}
			}
		}
	}
	for si := 1; si < len(c.Stores); si++ {
		if !failedSec[si] || c.Stores[si].FailOpen || okSelects == 0 {
			continue
		}
		anySecFailure = true
		found := primaryEarlyFail
		for _, what := range []string{"select", "next"} {
			if hasWarn(stores[si].errFor(what)) {
				found = true
			}
		}
		if !found {
			return ev.Failf("secondary %d failed (script %v) but none of the result sets carries its error as a warning; warnings: %v", si, c.Stores[si].FailAt, allWarn.AsErrors())
		}
		r.Class("fail:secondary-first")
		if len(c.Stores[si].Series) > 0 && len(c.Stores[0].Series) > 0 {
			r.NonTrivial()
		}
	}
	if !anySecFailure {
		r.Class("no-secondary-failure")
	}
	if nsel > 1 {
		r.Class("multi-select")
	}
	return nil
}

type c54Got struct {
	l     labels.Labels
	ts    []int64
	obs   []cand
	metas []chunks.Meta
}

func c54Compare(sel int, mode string, lbls []labels.Labels, want []*refSeries, got []c54Got, failed map[int]bool) error {
	if len(got) != len(want) {
		var gl, wl []string
		for _, g := range got {
			gl = append(gl, g.l.String())
		}
		for _, w := range want {
			wl = append(wl, lbls[w.L].String())
		}
		return ev.Failf("select %d: %d series, want %d (failed secondaries %v): got %v want %v", sel, len(got), len(want), failed, gl, wl)
	}
	for i, w := range want {
		g := got[i]
		if !labels.Equal(g.l, lbls[w.L]) {
			return ev.Failf("select %d: series %d is %v, want %v (failed secondaries %v)", sel, i, g.l, lbls[w.L], failed)
		}
		if mode == "chunks" {
			for ci, m := range g.metas {
				if ci > 0 && m.MinTime <= g.metas[ci-1].MaxTime {
					return ev.Failf("select %d %v: chunk %d [%d,%d] not after chunk %d [%d,%d]", sel, g.l, ci, m.MinTime, m.MaxTime, ci-1, g.metas[ci-1].MinTime, g.metas[ci-1].MaxTime)
				}
				it := m.Chunk.Iterator(nil)
				k := 0
				var last int64
				for vt := it.Next(); vt != chunkenc.ValNone; vt = it.Next() {
					t, o, err := obsAt(it, vt)
					if err != nil {
						return ev.Failf("select %d %v chunk %d: %v", sel, g.l, ci, err)
					}
					if k == 0 && t != m.MinTime {
						return ev.Failf("select %d %v: chunk %d MinTime=%d but first sample t=%d", sel, g.l, ci, m.MinTime, t)
					}
					g.ts = append(g.ts, t)
					g.obs = append(g.obs, o)
					last = t
					k++
				}
				if err := it.Err(); err != nil {
					return ev.Failf("select %d %v chunk %d: decode error %v", sel, g.l, ci, err)
				}
				if k == 0 || last != m.MaxTime {
					return ev.Failf("select %d %v: chunk %d meta [%d,%d] but %d samples, last t=%d", sel, g.l, ci, m.MinTime, m.MaxTime, k, last)
				}
			}
		}
		if len(g.ts) != len(w.Ts) {
			return ev.Failf("select %d %v: %d samples %v, want %d %v (failed secondaries %v)", sel, g.l, len(g.ts), g.ts, len(w.Ts), w.Ts, failed)
		}
		for j, t := range w.Ts {
			if g.ts[j] != t {
				return ev.Failf("select %d %v: sample %d at t=%d, want t=%d (got %v want %v; failed secondaries %v)", sel, g.l, j, g.ts[j], t, g.ts, w.Ts, failed)
			}
			if !w.admits(t, g.obs[j]) {
				return ev.Failf("select %d %v: t=%d value %+v is not a value of a non-failed storage %+v (failed secondaries %v)", sel, g.l, t, g.obs[j], w.At[t], failed)
			}
		}
	}
	return nil
}

func runC54Labels(c c54Case, lbls []labels.Labels, q storage.LabelQuerier, r *ev.Rec) error {
	var ms []*labels.Matcher
	if len(c.Selects) > 0 {
		var err error
		if ms, err = c54Matchers(c.Selects[0]); err != nil {
			r.Discard()
			return nil
		}
	}
	wantNames, wantValues := map[string]bool{}, map[string]bool{}
	var wantWarn []error
	for si, s := range c.Stores {
		if si > 0 && s.FailOpen {
			continue
		}
		if s.FailLabels {
			if si > 0 {
				wantWarn = append(wantWarn, si2err(si))
			}
			continue
		}
		m := &memStore{lbls: lbls, series: s.Series}
		for _, x := range m.match(ms) {
			lbls[x.L].Range(func(l labels.Label) {
				wantNames[l.Name] = true
				if l.Name == c.LName {
					wantValues[l.Value] = true
				}
			})
		}
	}
	check := func(what string, got []string, ws annotations.Annotations, err error, want map[string]bool) error {
		if c.Stores[0].FailLabels {
			r.Class("fail:primary-labels")
			if err == nil {
				return ev.Failf("%s: the primary failed but no error was returned", what)
			}
			return nil
		}
		if err != nil {
			return ev.Failf("%s: error %v although the primary did not fail", what, err)
		}
		w := sortedKeys(want)
		if fmt.Sprint(got) != fmt.Sprint(w) {
			return ev.Failf("%s: got %v, want %v", what, got, w)
		}
		if len(wantWarn) > 0 {
			r.Class("fail:secondary-labels")
			r.NonTrivial()
		}
		for _, e := range wantWarn {
			found := false
			for _, x := range ws.AsErrors() {
				if len(x.Error()) >= len(e.Error()) && x.Error()[:len(e.Error())] == e.Error() {
					found = true
				}
			}
			if !found {
				return ev.Failf("%s: error of failed secondary (%v) not among the warnings %v", what, e, ws.AsErrors())
			}
		}
		return nil
	}
	names, ws, err := q.LabelNames(context.Background(), nil, ms...)
	if err := check("LabelNames", names, ws, err, wantNames); err != nil {
		return err
	}
	vals, ws, err := q.LabelValues(context.Background(), c.LName, nil, ms...)
	return check("LabelValues("+c.LName+")", vals, ws, err, wantValues)
}

// si2err is the common prefix of the label-call errors of store si.
func si2err(si int) error { return fmt.Errorf("store %d scripted label", si) }

func runC54Append(c c54Case, lbls []labels.Labels, r *ev.Rec) error {
	order := []string{}
	stores := make([]*fakeStorage, len(c.Stores))
	sts := make([]storage.Storage, len(c.Stores))
	for i, s := range c.Stores {
		stores[i] = &fakeStorage{idx: i, script: s, inner: &memStore{lbls: lbls}}
		sts[i] = fakeWriteStorage{stores[i], &order}
	}
	fan := storage.NewFanout(slog.New(slog.NewTextHandler(io.Discard, nil)), sts[0], sts[1:]...)
	var (
		v1 storage.Appender
		v2 storage.AppenderV2
	)
	if c.V2 {
		v2 = fan.AppenderV2(context.Background())
		r.Class("appender:v2")
	} else {
		v1 = fan.Appender(context.Background())
	}
	for i, s := range stores {
		if len(s.appenders) != 1 {
			return ev.Failf("store %d: %d appenders opened for one fanout appender", i, len(s.appenders))
		}
	}
	var want []appended
	appendFailed := false
	for i, b := range c.Batch {
		if b.L < 0 || b.L >= len(lbls) {
			r.Discard()
			return nil
		}
		smp := mkSample(b.K, true, mPt{T: b.T, V: b.V})
		var ref storage.SeriesRef
		var err error
		switch {
		case c.V2:
			ref, err = v2.Append(0, lbls[b.L], 0, b.T, smp.f, smp.h, smp.fh, storage.AppendV2Options{})
		case b.K == 0:
			ref, err = v1.Append(0, lbls[b.L], b.T, smp.f)
		default:
			ref, err = v1.AppendHistogram(0, lbls[b.L], b.T, smp.h, smp.fh)
		}
		expectErr := false
		for _, s := range c.Stores {
			if s.FailAppend == i {
				expectErr = true
			}
		}
		if expectErr != (err != nil) {
			return ev.Failf("append %d: error=%v, but a storage was scripted to fail: %v", i, err, expectErr)
		}
		if err != nil {
			appendFailed = true
			break
		}
		if wantRef := storage.SeriesRef(1000 + len(want) + 1); ref != wantRef {
			return ev.Failf("append %d: returned ref %d, the primary's ref is %d", i, ref, wantRef)
		}
		rec := appended{l: lbls[b.L].String(), t: b.T, k: b.K}
		if b.K == 0 {
			rec.v = b.V
		} else {
			rec.id = b.V
		}
		want = append(want, rec)
	}
	finalised := func() error {
		for i, s := range stores {
			a := s.appenders[0]
			if a.commits+a.rolls != 1 {
				return ev.Failf("store %d: appender finished %d times by Commit and %d times by Rollback (calls in order: %v)", i, a.commits, a.rolls, order)
			}
		}
		return nil
	}
	if appendFailed {
		// the caller of a failed append abandons the transaction
		r.Class("append-failed-rollback")
		var err error
		if c.V2 {
			err = v2.Rollback()
		} else {
			err = v1.Rollback()
		}
		for i, s := range stores {
			a := s.appenders[0]
			if a.committed || a.commits > 0 {
				return ev.Failf("rollback: store %d was committed (calls %v)", i, order)
			}
		}
		if c.Stores[0].FailRollback {
			r.NonTrivial()
			if err == nil {
				return ev.Failf("rollback: the primary's rollback failed but the fanout Rollback returned nil")
			}
		}
		return finalised()
	}
	var err error
	if c.V2 {
		err = v2.Commit()
	} else {
		err = v1.Commit()
	}
	firstFail := -1
	for i, s := range c.Stores {
		if s.FailCommit {
			firstFail = i
			break
		}
	}
	switch {
	case firstFail < 0:
		r.Class("commit-ok")
		if err != nil {
			return ev.Failf("commit: error %v although no storage failed", err)
		}
		for i, s := range stores {
			a := s.appenders[0]
			if !a.committed {
				return ev.Failf("commit returned nil but store %d did not commit (calls %v)", i, order)
			}
			if fmt.Sprint(a.pending) != fmt.Sprint(want) {
				return ev.Failf("commit: store %d holds %v, want the batch %v", i, a.pending, want)
			}
		}
		if len(want) > 0 && len(stores) > 1 {
			r.NonTrivial()
		}
	case firstFail == 0:
		r.Class("commit-primary-fails")
		r.NonTrivial()
		if err == nil {
			return ev.Failf("commit: the primary's commit failed but the fanout Commit returned nil")
		}
		for i, s := range stores[1:] {
			a := s.appenders[0]
			if a.committed || a.commits > 0 {
				return ev.Failf("commit: the primary's commit failed but secondary %d was committed (calls in order: %v)", i+1, order)
			}
		}
	default:
		r.Class("commit-secondary-fails")
		r.NonTrivial()
		if err == nil {
			return ev.Failf("commit: secondary %d failed to commit but the fanout Commit returned nil", firstFail)
		}
		if !stores[0].appenders[0].committed {
			return ev.Failf("commit: primary not committed (calls in order: %v)", order)
		}
		if len(order) == 0 || order[0] != "commit:0" {
			return ev.Failf("commit: the primary must be committed first, calls in order: %v", order)
		}
	}
	return finalised()
}

// ---- generator ---------------------------------------------------------------------

func genFailAt(t *rapid.T, n int) []int {
	out := make([]int, n)
	for i := range out {
		out[i] = -1
		// rapid favours the ends of a range: the late failure sits there
		switch rapid.IntRange(0, 9).Draw(t, "failclass") {
		case 3:
			out[i] = 0
		case 4, 5:
			out[i] = 1
		case 0, 6:
			out[i] = rapid.SampledFrom([]int{2, 3, 2, 4, 2}).Draw(t, "failnext")
		}
	}
	return out
}

func genC54(t *rapid.T) c54Case {
	c := c54Case{Mode: rapid.SampledFrom([]string{"query", "chunks", "append", "labels", "query", "chunks", "query"}).Draw(t, "mode")}
	nsec := rapid.SampledFrom([]int{1, 2, 3, 0, 2}).Draw(t, "nsec")
	var sets [][]mSeries
	c.Labels, sets = genC19Inputs(t, 4)
	for len(sets) < nsec+1 {
		sets = append(sets, []mSeries{})
	}
	sets = sets[:nsec+1]
	if rapid.Bool().Draw(t, "tag") {
		// make values tell the storages apart so that leaked data is visible
		for si := range sets {
			for _, s := range sets[si] {
				for ci := range s.Chunks {
					for pi := range s.Chunks[ci].S {
						p := &s.Chunks[ci].S[pi]
						if s.Chunks[ci].K == 0 {
							p.V = gen.B(float64(si*10) + float64(p.V%7))
						} else {
							p.V = p.V + uint64(si)*20
						}
					}
				}
			}
		}
	}
	// opening 2-4 TSDBs costs ~0.3 s per case: rare in quick, more frequent in thorough
	realOneIn := 40
	if ev.Thorough() {
		realOneIn = 12
	}
	c.Real = c.Mode != "append" && rapid.IntRange(0, realOneIn-1).Draw(t, "real") == realOneIn/2
	if c.Real {
		// the head turns a float staleness marker that follows a histogram sample into a
		// histogram staleness marker; keep that TSDB feature out of the fanout check
		for si := range sets {
			for _, s := range sets[si] {
				for ci := range s.Chunks {
					for pi := range s.Chunks[ci].S {
						if s.Chunks[ci].K == 0 && s.Chunks[ci].S[pi].V == gen.StaleNaNBits {
							s.Chunks[ci].S[pi].V = gen.NormalNaNBits
						}
					}
				}
			}
		}
	}
	nsel := 1
	if c.Mode == "query" || c.Mode == "chunks" {
		nsel = rapid.SampledFrom([]int{1, 2, 1, 3, 1}).Draw(t, "nsel")
	}
	for i := 0; i < nsel; i++ {
		// every real caller passes at least one matcher (a TSDB selects nothing without)
		ms := []c54Matcher{{Type: int(labels.MatchRegexp), Name: "__name__", Value: ".+"}}
		if len(c.Labels) > 0 && rapid.IntRange(0, 2).Draw(t, "hasmatcher") == 0 {
			l := c.Labels[rapid.IntRange(0, len(c.Labels)-1).Draw(t, "ml")]
			p := l[rapid.IntRange(0, len(l)-1).Draw(t, "mp")]
			ms = append(ms, c54Matcher{Type: rapid.IntRange(0, 1).Draw(t, "mtype"), Name: p[0], Value: p[1]})
		}
		c.Selects = append(c.Selects, ms)
	}
	no := rapid.IntRange(0, 8).Draw(t, "norder")
	for i := 0; i < no; i++ {
		c.Order = append(c.Order, rapid.IntRange(0, nsel-1).Draw(t, "ord"))
	}
	c.LName = rapid.SampledFrom([]string{"__name__", "a", "b", "job", "zz"}).Draw(t, "lname")
	nb := 0
	if c.Mode == "append" {
		c.V2 = rapid.Bool().Draw(t, "v2")
		nb = rapid.IntRange(0, 6).Draw(t, "nbatch")
		for i := 0; i < nb; i++ {
			k := uint8(0)
			if rapid.IntRange(0, 4).Draw(t, "bk") == 0 {
				k = uint8(rapid.IntRange(1, 2).Draw(t, "bkh"))
			}
			c.Batch = append(c.Batch, c54Append{L: rapid.IntRange(0, len(c.Labels)-1).Draw(t, "bl"), K: k, T: int64(rapid.IntRange(0, 50).Draw(t, "bt")), V: genValue(t, k)})
		}
	}
	healthy := rapid.IntRange(0, 9).Draw(t, "healthy") == 0
	for si := range sets {
		s := c54Store{Series: sets[si], FailAppend: -1}
		if !healthy {
			primary := si == 0
			switch c.Mode {
			case "append":
				p := 5
				if primary {
					p = 8
				}
				if nb > 0 && rapid.IntRange(0, p).Draw(t, "fa") == 0 {
					s.FailAppend = rapid.IntRange(0, nb-1).Draw(t, "fai")
				}
				s.FailCommit = rapid.IntRange(0, p-2).Draw(t, "fc") == 0
				s.FailRollback = rapid.IntRange(0, 5).Draw(t, "fr") == 0
			case "labels":
				s.FailLabels = rapid.IntRange(0, 3).Draw(t, "fl") == 0
				s.FailOpen = rapid.IntRange(0, 19).Draw(t, "fo") == 7
			default:
				s.FailAt = genFailAt(t, nsel)
				if primary && rapid.IntRange(0, 2).Draw(t, "primaryok") > 0 {
					s.FailAt = nil
				}
				s.FailOpen = rapid.IntRange(0, 19).Draw(t, "fo") == 7
				s.Warn = rapid.IntRange(0, 5).Draw(t, "warn") == 0
			}
		}
		c.Stores = append(c.Stores, s)
	}
	return c
}

func TestC54(t *testing.T) {
	ev.Check(t, "C54",
		"storage.NewFanout over a primary and 0-3 secondaries with generated overlapping contents (C19 generator: shared label sets, identical / variant / adjacent series, float and histogram chunks), served from list series or (1 case in 40 quick, 1 in 12 thorough) from real TSDBs, behind wrappers following a drawn failure script: error at Querier()/ChunkQuerier(), Select returning an error set, failure of the k-th Next (k=1..4), LabelNames/LabelValues errors, failing i-th Append, failing Commit / Rollback. Modes: Querier and ChunkQuerier with 1-3 Selects issued before a drawn interleaving of Next calls, label queries, Appender / AppenderV2 transactions. Oracle: reference merge of the primary and the non-failed secondaries (all-or-nothing per secondary), Err()==nil with the secondary's error among the warnings, primary failure => error; commits reach every storage, a failed primary commit leaves every secondary rolled back, every appender finished exactly once. Non-trivial: a secondary failure is reached while it and the primary hold data, or a commit/rollback with a scripted failure, or a successful multi-storage commit; distinct by hash of the case.",
		genC54, runC54)
}
