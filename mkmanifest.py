#!/usr/bin/env python3
"""Regenerates MANIFEST.json from registry.json (checks that exist) and properties.jsonl.
Run after every registry change:  python3 mkmanifest.py"""
import json, os, subprocess

ROOT = os.path.dirname(os.path.abspath(__file__))
reg = json.load(open(os.path.join(ROOT, "registry.json")))
_d = os.path.join(ROOT, "registry.d")
if os.path.isdir(_d):
    for _fn in sorted(os.listdir(_d)):
        if _fn.endswith(".json"):
            reg.update(json.load(open(os.path.join(_d, _fn))))
props = [json.loads(l) for l in open(os.path.join(ROOT, "properties.jsonl"))]
hooks_file = os.path.join(ROOT, "hooks.json")
hooks = json.load(open(hooks_file)) if os.path.exists(hooks_file) else {"source_commits": []}

checks, na = [], []
for p in props:
    pid = p["id"]
    r = reg.get(pid)
    if not r or r.get("disabled"):
        na.append({"property_id": pid, "reason": (r or {}).get("na_reason", "no check built for this property in this revision of the framework (see DESIGN.md section 5 for the planned generator and oracle)")})
        continue
    c = {
        "property_id": pid,
        "quick_cmd": "./check %s --tier quick" % pid,
        "thorough_cmd": "./check %s --tier thorough" % pid,
        "evidence_file": "/verif/evidence/%s.json" % pid,
        "replay_cmd_template": "./check %s --replay {path}" % pid,
        "engine": "rapid-harness",
        "level_claimed": {
            "category": r.get("level", "exploration"),
            "text": r.get("level_text", "Generated-input search (rapid) against an explicit oracle; the property held on every generated case, counts and class distribution are in the evidence file. No claim of absence."),
            "design_ref": "DESIGN.md section 5, " + pid,
        },
        "level_note": r.get("level_note", "; ".join(r.get("assumptions", [])) or "exported API of /repo built from the working tree with -tags verif"),
        "technique": r.get("technique", "property-based testing (pgregory.net/rapid) with an independent oracle"),
    }
    checks.append(c)

man = {
    "version": 1,
    "setup_cmd": "./check --setup",
    "hooks": {
        "guard": "verif",
        "enable": "go test -tags verif (the driver ./check passes -tags verif to every build of the harness module, which replaces github.com/prometheus/prometheus with /repo)",
        "baseline_off_cmd": "cd /repo && for m in . ./compliance; do (cd $m && go test -vet=off -count=1 -timeout 25m ./...); done",
        "source_commits": hooks.get("source_commits", []),
        "add_only": True,
    },
    "engines": [
        {"name": "rapid-harness", "path": "/verif/harness", "serves_properties": [c["property_id"] for c in checks],
         "kind_free_text": "external Go module (pgregory.net/rapid v1.3.0) compiled against /repo's working tree by the python driver /verif/check; sharded over PRNG seeds derived from VERIF_SEED; evidence merged by the driver"},
    ],
    "checks": checks,
    "notes": "Every check is `./check <ID> --tier quick|thorough`; exit 0 ok, 1 + VIOLATION line, 2 inconclusive (build/timeout). Known findings are listed in known_findings.json.",
    "not_applicable": na,
}
json.dump(man, open(os.path.join(ROOT, "MANIFEST.json"), "w"), indent=1)
print("checks:", len(checks), "not_applicable:", len(na))
